import numpy as np
import mystic.penalty as mp
from mystic.tools import wrap_bounds

def quadineq(v: float, k: float, fx: float) -> float:
    """
    pre: k > 0 and -1e6 < v < 1e6 and k < 1e6 and -1e6 < fx < 1e6
    post: __return__ == (fx if v <= 0 else fx + 2*k*v*v)
    """
    pen = mp.quadratic_inequality(lambda x: v, k=k, h=5)(lambda x: fx)
    return pen([0.0])

def bounds(x0: float, x1: float, lo: float, hi: float) -> bool:
    """
    pre: lo <= hi
    post: __return__ == (lo <= x0 <= hi and lo <= x1 <= hi)
    """
    calls = []
    def cost(p):
        calls.append(1); return 0.0
    f = wrap_bounds(cost, [lo, lo], [hi, hi])
    f(np.array([x0, x1], dtype=object))
    return bool(calls)
