import sys, time, z3, traceback
import symload; symload.install()
from symex import *
import numpy as np
def zz(v): return v.z if isinstance(v, SReal) else z3.RealVal(float(v).as_integer_ratio()[0])/z3.RealVal(float(v).as_integer_ratio()[1])
import mystic.constraints as C
def run(name, h, **kw):
    try:
        s = explore(h, timeout=kw.get('timeout',120))
        print(name, {k:v for k,v in s.items() if k!='failed'}, [(a,b) for a,b,_,_ in s['failed']][:3], flush=True)
    except BaseException as e:
        tb = traceback.extract_tb(e.__traceback__)[-1]
        print(name, 'ENGINE-ERR', type(e).__name__, str(e)[:120], '@', tb.filename.split('/')[-1], tb.lineno, flush=True)
n=3
def X(): return [SReal(z3.Real('x%d'%i)) for i in range(n)]
def h_sorting(ctx):
    x = X(); y = C.sorting()(lambda x:x)(list(x))
    yz=[zz(v) for v in y]
    return [('sorted', z3.And(*[yz[i]<=yz[i+1] for i in range(n-1)])), ('perm', z3.And(*[z3.Or(*[yz[j]==x[i].z for j in range(n)]) for i in range(n)]))]
run('sorting', h_sorting)
def h_mono(ctx):
    x = X(); y = C.monotonic()(lambda x:x)(list(x)); yz=[zz(v) for v in y]
    return [('mono', z3.And(*[yz[i]<=yz[i+1] for i in range(n-1)])), ('first', yz[0]==x[0].z)]
run('monotonic', h_mono)
def h_disc(ctx):
    x = X(); y = C.discrete([1.0, 2.0, 5.0], index=(0,2))(lambda x:x)(list(x)); yz=[zz(v) for v in y]
    return [('in-set0', z3.Or(*[yz[0]==k for k in (1,2,5)])), ('untouched1', yz[1]==x[1].z), ('nearest0', z3.And(*[z3.If(yz[0]-x[0].z>=0, yz[0]-x[0].z, x[0].z-yz[0]) <= z3.If(k-x[0].z>=0,k-x[0].z,x[0].z-k) for k in (1,2,5)]))]
run('discrete', h_disc)
def h_at(ctx):
    x = X(); t = SReal(z3.Real('t')); y = C.impose_at([1,5], t)(lambda x:x)(list(x)); yz=[zz(v) for v in y]
    return [('pinned', yz[1]==t.z), ('rest', z3.And(yz[0]==x[0].z, yz[2]==x[2].z))]
run('impose_at', h_at)
def h_mean(ctx):
    x = X(); t = SReal(z3.Real('t')); y = C.with_mean(t)(lambda x:x)(list(x)); yz=[zz(v) for v in y]
    return [('mean', z3.Sum(yz)/n == t.z)]
run('with_mean', h_mean)
def h_int(ctx):
    x = X(); y = C.integers(float)(lambda x:x)(list(x)); yz=[zz(v) for v in y]
    return [('near', z3.And(*[z3.And(yz[i]-x[i].z <= 0.5, x[i].z-yz[i] <= 0.5) for i in range(n)]))]
run('integers', h_int)
# and_ with uninterpreted members
c1 = [z3.Function('c1_%d'%i, z3.RealSort(), z3.RealSort(), z3.RealSort()) for i in range(2)]
c2 = [z3.Function('c2_%d'%i, z3.RealSort(), z3.RealSort(), z3.RealSort()) for i in range(2)]
def mk(cf): return lambda x: [SReal(g(zz(x[0]), zz(x[1]))) for g in cf]
def h_and(ctx):
    x = [SReal(z3.Real('x%d'%i)) for i in range(2)]
    flag = []
    a = C.and_(mk(c1), mk(c2), maxiter=2, onexit=lambda v: (flag.append('exit'), v)[1], onfail=lambda v: (flag.append('fail'), v)[1])
    y = a(list(x)); yz=[zz(v) for v in y]
    if flag == ['exit']:
        return [('fixed', z3.And(*[g(*yz)==yz[i] for cf in (c1,c2) for i,g in enumerate(cf)]))]
    return [('fail-fired', z3.BoolVal(flag == ['fail']))]
run('and_', h_and, timeout=300)
