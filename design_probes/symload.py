"""prototype loader: import /repo/mystic/*.py unmodified, with substitute builtins
(float/int/__import__) so numpy/random/math resolve to symbolic-aware shims."""
import sys, builtins, importlib, importlib.abc, importlib.machinery, importlib.util, types, math as _math, numbers
import numpy as _np
import z3
from symex import SReal, SBool, Ctx, Unsupported

import os; REPO = os.environ.get('SYMREPO','/repo')

# ---------------- builtins overlay
class _FloatMeta(type):
    def __instancecheck__(cls, o): return isinstance(o, (builtins.float, SReal))
    def __call__(cls, x=0.0):
        if isinstance(x, SReal): return x
        if isinstance(x, SBool): return x._r()
        return builtins.float(x)
    def __eq__(cls, o): return o is cls or o is builtins.float
    def __hash__(cls): return hash(builtins.float)
class sfloat(metaclass=_FloatMeta):
    __name__ = 'float'
sfloat.__name__ = 'float'

def _sym_import(name, globals=None, locals=None, fromlist=(), level=0):
    if level == 0:
        root = name.split('.')[0]
        if root == 'numpy':
            if name == 'numpy': return symnp
            if name == 'numpy.random': return symnp if not fromlist else symnp.random
            return builtins.__import__(name, globals, locals, fromlist, level)
        if root == 'random': return symrandom
        if root == 'math': return symmath
    return builtins.__import__(name, globals, locals, fromlist, level)

SYM_BUILTINS = dict(vars(builtins))
SYM_BUILTINS['float'] = sfloat
SYM_BUILTINS['__import__'] = _sym_import

# ---------------- numpy shim
def _is_sym(x): return isinstance(x, (SReal, SBool))
def _map_dtype(dt):
    if dt is None: return None
    if dt is sfloat or dt is builtins.float: return object
    try:
        d = _np.dtype(dt)
        if d.kind in 'fc': return object
        return d
    except TypeError:
        return object
def _objify(a):
    if isinstance(a, _np.ndarray) and a.dtype.kind in 'fc':
        o = _np.empty(a.shape, dtype=object)
        o[...] = a.tolist() if a.ndim else a.item()
        if a.ndim:
            flat = [builtins.float(v) for v in a.ravel().tolist()]
            o = _np.empty(a.size, dtype=object)
            for i, v in enumerate(flat): o[i] = v
            o = o.reshape(a.shape)
        return o
    return a

class _SymNP(types.ModuleType):
    def __getattr__(self, n): return getattr(_np, n)
symnp = _SymNP('numpy')
for _k in dir(_np):
    if not _k.startswith('_'): setattr(symnp, _k, getattr(_np, _k))
symnp.ndarray = _np.ndarray; symnp.inf = _np.inf; symnp.nan = _np.nan

def _array(a, dtype=None, copy=True, **kw):
    dt = _map_dtype(dtype)
    r = _np.array(a, dtype=dt, copy=copy, **kw)
    return _objify(r)
def _asarray(a, dtype=None, **kw):
    dt = _map_dtype(dtype)
    if isinstance(a, _np.ndarray) and a.dtype == object and (dt is None or dt is object): return a
    r = _np.asarray(a, dtype=dt, **kw)
    return _objify(r)
symnp.array = _array; symnp.asarray = _asarray
def _mk(name):
    f = getattr(_np, name)
    def g(shape, dtype=builtins.float, **kw):
        return _objify(f(shape, dtype=_np.dtype('float64') if _map_dtype(dtype) is object else dtype, **kw))
    return g
for _n in ('zeros','ones','empty'): setattr(symnp, _n, _mk(_n))
def _eye(N, M=None, k=0, dtype=builtins.float, **kw): return _objify(_np.eye(N, M, k, **kw))
symnp.eye = _eye
def _elem(fn_conc, fn_sym):
    def g(x, *a, **k):
        arr = _np.asarray(x, dtype=object) if not isinstance(x, _np.ndarray) else x
        if arr.dtype != object: return fn_conc(x, *a, **k)
        out = _np.empty(arr.shape, dtype=bool if fn_sym is _false else object)
        it = _np.nditer(arr, flags=['multi_index','refs_ok'])
        for _ in it:
            v = arr[it.multi_index] if arr.ndim else arr.item()
            r = fn_sym(v) if _is_sym(v) else fn_conc(v)
            if arr.ndim: out[it.multi_index] = r
            else: return r
        return out
    return g
def _false(v): return False
symnp.isinf = _elem(_np.isinf, _false); symnp.isnan = _elem(_np.isnan, _false)
symnp.absolute = symnp.abs = lambda x, *a, **k: abs(x) if _is_sym(x) else _np.absolute(x, *a, **k)
_state = {}
symnp.seterr = lambda **k: {}
class _NPRandom(types.ModuleType):
    def __getattr__(self, n): return getattr(_np.random, n)
symnp.random = _NPRandom('numpy.random')

# ---------------- random shim: every draw is a fresh symbolic value
import random as _random
class _SymRandom(types.ModuleType):
    log = []
    def __getattr__(self, n): return getattr(_random, n)
    def random(self):
        r = Ctx.cur.fresh('rnd'); Ctx.cur.assume(z3.And(r >= 0, r < 1)); v = SReal(r); self.log.append(('random', v)); return v
    def uniform(self, a, b):
        return a + (b-a)*self.random()
    def randrange(self, n):
        # multiway fork over concrete values
        for k in range(n-1):
            b = SBool(Ctx.cur.fresh('rr', 'B'))
            if b: self.log.append(('randrange', k)); return k
        self.log.append(('randrange', n-1)); return n-1
    def sample(self, pop, k):
        pop = list(pop); out = []
        for _ in range(k):
            i = self.randrange(len(pop)); out.append(pop.pop(i))
        return out
    def randint(self, a, b): return a + self.randrange(b-a+1)
    def seed(self, *a): pass
symrandom = _SymRandom('random')
symmath = _math

# ---------------- the loader
class _Loader(importlib.machinery.SourceFileLoader):
    def exec_module(self, module):
        code = self.source_to_code(self.get_data(self.path), self.path)
        module.__dict__['__builtins__'] = SYM_BUILTINS
        exec(code, module.__dict__)
class _Finder(importlib.abc.MetaPathFinder):
    def find_spec(self, fullname, path, target=None):
        if fullname != 'mystic' and not fullname.startswith('mystic.'): return None
        spec = importlib.machinery.PathFinder.find_spec(fullname, [REPO] if path is None else path)
        if spec is None or not isinstance(spec.loader, importlib.machinery.SourceFileLoader): return spec
        spec.loader = _Loader(spec.loader.name, spec.loader.path)
        return spec
def install():
    assert 'mystic' not in sys.modules
    sys.dont_write_bytecode = True
    sys.meta_path.insert(0, _Finder())
