import sys, time, z3
import symload; symload.install()
from symex import *
import numpy as np
import mystic.scipy_optimize as so
D = 2
f = z3.Function('f', *([z3.RealSort()]*(D+1)))
def zz(v): return v.z if isinstance(v, SReal) else z3.RealVal(float(v).as_integer_ratio()[0])/z3.RealVal(float(v).as_integer_ratio()[1])
def F(x): return f(*[zz(v) for v in x])

def ref_nm(sim, fsim, fz):
    """reference: one iteration of scipy.optimize.fmin (0.6-era) on sorted simplex; returns list of (cond, sim', fsim') symbolic via z3 If"""
    # implemented with z3 expressions + If, no forking
    N = D; rho, chi, psi, sigma = 1, 2, z3.RealVal('1/2'), z3.RealVal('1/2')
    xbar = [z3.Sum([sim[i][j] for i in range(N)])/N for j in range(N)]
    xr = [(1+rho)*xbar[j] - rho*sim[-1][j] for j in range(N)]; fxr = fz(xr)
    xe = [(1+rho*chi)*xbar[j] - rho*chi*sim[-1][j] for j in range(N)]; fxe = fz(xe)
    xc = [(1+psi*rho)*xbar[j] - psi*rho*sim[-1][j] for j in range(N)]; fxc = fz(xc)
    xcc = [(1-psi)*xbar[j] + psi*sim[-1][j] for j in range(N)]; fxcc = fz(xcc)
    shr = [[sim[0][j] + sigma*(sim[i][j]-sim[0][j]) for j in range(N)] for i in range(N+1)]
    cases = []
    def repl(x, fx): return (sim[:-1]+[x], fsim[:-1]+[fx])
    def shrink(): return ([sim[0]]+shr[1:], [fsim[0]]+[fz(s) for s in shr[1:]])
    c1 = fxr < fsim[0]
    cases.append((z3.And(c1, fxe < fxr), repl(xe, fxe)))
    cases.append((z3.And(c1, z3.Not(fxe < fxr)), repl(xr, fxr)))
    c2 = z3.And(z3.Not(c1), fxr < fsim[-2]); cases.append((c2, repl(xr, fxr)))
    c3 = z3.And(z3.Not(c1), z3.Not(fxr < fsim[-2]))
    c3a = z3.And(c3, fxr < fsim[-1])
    cases.append((z3.And(c3a, fxc <= fxr), repl(xc, fxc)))
    cases.append((z3.And(c3a, z3.Not(fxc <= fxr)), shrink()))
    c3b = z3.And(c3, z3.Not(fxr < fsim[-1]))
    cases.append((z3.And(c3b, fxcc < fsim[-1]), repl(xcc, fxcc)))
    cases.append((z3.And(c3b, z3.Not(fxcc < fsim[-1])), shrink()))
    return cases

def harness(ctx):
    s = so.NelderMeadSimplexSolver(D)
    sim = [[SReal(z3.Real('s%d_%d'%(i,j))) for j in range(D)] for i in range(D+1)]
    fs = [SReal(F(p)) for p in sim]
    for i in range(D): ctx.assume(fs[i].z <= fs[i+1].z)   # sorted simplex (invariant after each step)
    s.population = np.array(sim, dtype=object); s.popEnergy = np.array(fs, dtype=object)
    s._stepmon(list(sim[0]), fs[0]); s._stepmon(list(sim[0]), fs[0])   # generations = 1 -> main loop
    calls = []
    def cost(x): calls.append(list(x)); return SReal(F(x))
    from mystic.termination import VTR
    s.SetTermination(VTR(-1.0)); s.SetEvaluationLimits(100,1000)
    s.Step(cost)
    obs = []
    # C01: stored energies match
    for i in range(D+1): obs.append(('E%d'%i, zz(s.popEnergy[i]) == F(s.population[i])))
    for i in range(D): obs.append(('sorted%d'%i, zz(s.popEnergy[i]) <= zz(s.popEnergy[i+1])))
    # C08: same multiset as the reference iteration (compare as: exists case with cond true & each new vertex set equal after sort by energy)
    zsim = [[v.z for v in p] for p in sim]; zfs = [v.z for v in fs]
    cases = ref_nm(zsim, zfs, lambda x: f(*x))
    new = [[zz(v) for v in s.population[i]] for i in range(D+1)]
    ok = []
    for cond, (rs, rf) in cases:
        # every reference vertex appears in result with same energy, and vice versa (set equality of (x,f) pairs)
        def same(a, b): return z3.And(*[a[j] == b[j] for j in range(D)])
        fwd = z3.And(*[z3.Or(*[same(r, n) for n in new]) for r in rs])
        bwd = z3.And(*[z3.Or(*[same(r, n) for r in rs]) for n in new])
        ok.append(z3.Implies(cond, z3.And(fwd, bwd)))
    obs.append(('ref-iteration', z3.And(*ok)))
    obs.append(('exactly-one-case', z3.Or(*[c for c,_ in cases])))
    return obs
s = explore(harness, timeout=900)
print({k:v for k,v in s.items() if k!='failed'}, [(a,b) for a,b,c,d in s['failed']][:5])
