import numpy as np, random
from mystic.solvers import NelderMeadSimplexSolver as NM, PowellDirectionalSolver as PW, DifferentialEvolutionSolver as DE, DifferentialEvolutionSolver2 as DE2
from mystic.termination import VTR, ChangeOverGeneration as COG
from mystic.monitors import Monitor
from mystic.tools import random_seed
def rosen(x): return sum(100*(x[1:]-x[:-1]**2)**2 + (1-x[:-1])**2) if hasattr(x,'shape') else rosen(np.asarray(x))
for S in (NM, PW, DE, DE2):
    random_seed(3)
    calls=[]
    def cost(x): calls.append(list(x)); return float(rosen(np.asarray(x,dtype=float)))
    s = S(3) if S in (NM,PW) else S(3,8)
    s.SetInitialPoints([0.5,1.5,-0.5])
    s.SetEvaluationMonitor(Monitor())
    s.SetTermination(VTR(1e-12))
    s.SetObjective(cost)
    for i in range(5): s.Step()
    a=(s.evaluations,len(calls),len(s._evalmon), s.generations)
    s.SetPenalty(lambda x: 0.0)
    for i in range(3): s.Step()
    b=(s.evaluations,len(calls),len(s._evalmon), s.generations)
    print(S.__name__, 'before reconfig', a, 'after', b)

# C03 NM constraints + maxiter stop
def cons(x):
    x = list(x); x[0] = round(x[0]); return x
for S in (NM, PW, DE):
  bad=0; tot=0
  for mi in range(1,25):
    random_seed(5)
    calls=[]
    def cost(x): calls.append(list(x)); return float(rosen(np.asarray(x,dtype=float)))
    s = S(3) if S in (NM,PW) else S(3,8)
    s.SetInitialPoints([0.6,1.5,-0.5])
    s.SetConstraints(cons)
    s.SetEvaluationLimits(generations=mi)
    s.Solve(cost, VTR(1e-12))
    x = list(s.bestSolution); tot+=1
    viol = (x[0] != round(x[0]))
    e_ok = abs(s.bestEnergy - cost(cons(x))) < 1e-12
    callviol = sum(1 for c in calls[:-1] if c[0]!=round(c[0]))
    if viol or not e_ok or callviol: bad+=1; print('  ', S.__name__, 'maxiter',mi,'best',x,'viol',viol,'E==f(c(best))',e_ok,'callviol',callviol, 'gens', s.generations)
  print(S.__name__, 'bad', bad, '/', tot)
