import z3, time
fx, fx2, fval, delta = z3.Reals('fx fx2 fval delta')
t = 2*(fx+fx2-2*fval)*(fx-fval-delta)*(fx-fval-delta) - delta*(fx-fx2)*(fx-fx2)
for name, s in (('default', z3.Solver()), ('nlsat', z3.Tactic('qfnra-nlsat').solver())):
    for c in (t < 0, t >= 0):
        s.push(); s.add(fx > fx2, delta >= 0, fval <= fx, c); t0=time.time(); r = s.check(); print(name, r, round(time.time()-t0,3)); s.pop()
# with UF
f = z3.Function('f', z3.RealSort(), z3.RealSort(), z3.RealSort())
a,b,c_,d = z3.Reals('a b c d')
s = z3.Solver(); s.set('timeout', 20000)
FX, FX2, FV = f(a,b), f(2*c_-a, 2*d-b), f(c_,d)
t2 = 2*(FX+FX2-2*FV)*(FX-FV-delta)*(FX-FV-delta) - delta*(FX-FX2)*(FX-FX2)
s.add(FX > FX2, delta >= 0, FV <= FX, t2 < 0); t0=time.time(); print('UF', s.check(), round(time.time()-t0,3))
