import numpy as np, itertools
from mystic.solvers import NelderMeadSimplexSolver as NM, PowellDirectionalSolver as PW, DifferentialEvolutionSolver as DE, DifferentialEvolutionSolver2 as DE2
from mystic.termination import VTR
from mystic.tools import random_seed
def rosen(x): x=np.asarray(x,dtype=float); return float(sum(100*(x[1:]-x[:-1]**2)**2 + (1-x[:-1])**2))
for S in (NM, PW, DE, DE2):
  for mi, mf in itertools.product((0,1,2,5,None),(0,1,3,10,None)):
    random_seed(3); calls=[]
    def cost(x): calls.append(1); return rosen(x)
    s = S(2) if S in (NM,PW) else S(2,4)
    s.SetInitialPoints([0.5,1.5])
    s.SetEvaluationLimits(mi, mf)
    s.Solve(cost, VTR(1e-15))
    g, e = s.generations, s.evaluations
    msg = s.Terminated(info=True)
    flag = []
    if mi is not None and g > mi: flag.append('GEN>LIMIT')
    if e != len(calls): flag.append('EVALS!=CALLS')
    # second solve
    n1 = len(calls)
    s.Solve()
    if len(calls) != n1: flag.append('RESOLVE-STEPPED(+%d)'%(len(calls)-n1))
    print(S.__name__[:6], 'maxiter',mi,'maxfun',mf,'-> gens',g,'evals',e,'calls',n1, msg[:40], flag)
