import sys, time, z3
import symload; symload.install()
from symex import *
import symload
def _sqrt(x):
    if isinstance(x, SReal): return x**0.5
    import numpy; return numpy.sqrt(x)
symload.symnp.sqrt = _sqrt
import mystic.math.measures as mm
def zz(v): return v.z if isinstance(v, SReal) else z3.RealVal(float(v).as_integer_ratio()[0])/z3.RealVal(float(v).as_integer_ratio()[1])
def mk(n, w, which):
    def h(ctx):
        x = [SReal(z3.Real('x%d'%i)) for i in range(n)]
        t = SReal(z3.Real('t'))
        W = sum(w) if w else n
        ww = w or [1]*n
        def zmean(xs): return z3.Sum([zz(a)*b for a,b in zip(xs,ww)])/W
        def zvar(xs):
            m = zmean(xs)
            return z3.Sum([(zz(a)-m)*(zz(a)-m)*b for a,b in zip(xs,ww)])/W
        ctx.assume(t.z > 0); ctx.assume(zvar(x) > 0)
        y = mm.impose_variance(t, x, w)
        return [('var', zvar(y) == t.z), ('mean', zmean(y) == zmean(x))]
    return h
for n,w in ((2,None),(2,[1.0,3.0]),(3,None),(3,[0.5,0.0,2.0]),(4,[1.0,2.0,0.0,0.25])):
    s = explore(mk(n, w, 'var'), timeout=120)
    print(n, w, {k:v for k,v in s.items() if k!='failed'}, [(f[0],f[1]) for f in s['failed']], flush=True)
