import z3, numpy as np
from symex import *
import mystic.penalty as mp
from mystic.tools import wrap_bounds
from mystic.termination import VTR, ChangeOverGeneration as COG, NormalizedChangeOverGeneration as NCOG

def h_quadineq(ctx):
    v = SReal(z3.Real('v')); k = SReal(z3.Real('k')); fx = SReal(z3.Real('fx'))
    ctx.assume(k.z > 0)
    hh = 5
    pen = mp.quadratic_inequality(lambda x: v, k=k, h=hh)(lambda x: fx)
    pen.iter(); pen.iter()   # n = 2
    out = pen([0.0])
    spec = z3.If(v.z <= 0, fx.z, fx.z + 2*k.z*25*v.z*v.z)
    oz = out.z if isinstance(out, SReal) else z3.RealVal(out)
    return [('formula', oz == spec), ('pos', z3.Implies(v.z > 0, oz > fx.z))]
print(explore(h_quadineq))

def h_bounds(ctx):
    x = [SReal(z3.Real('x%d'%i)) for i in range(2)]
    lo = [SReal(z3.Real('lo%d'%i)) for i in range(2)]
    hi = [SReal(z3.Real('hi%d'%i)) for i in range(2)]
    calls = []
    def cost(p): calls.append(list(p)); return SReal(z3.Real('c'))
    f = wrap_bounds(cost, np.array(lo, dtype=object), np.array(hi, dtype=object))
    r = f(np.array(x, dtype=object))
    inside = z3.And(*[z3.And(lo[i].z <= x[i].z, x[i].z <= hi[i].z) for i in range(2)])
    if calls: return [('called-inside', inside)]
    return [('notcalled-outside', z3.Not(inside)), ('isinf', z3.BoolVal(r == float('inf')))]
print(explore(h_bounds))

class Inst: pass
def h_term(ctx):
    n = 4
    hist = [SReal(z3.Real('e%d'%i)) for i in range(n)]
    tol = SReal(z3.Real('tol'))
    inst = Inst(); inst.energy_history = hist
    obs = []
    for g in (0,1,2,3,4,5,None):
        r = COG(tol, g)(inst)
        gg = 0 if g is None else g
        spec = z3.BoolVal(False) if n <= gg else (hist[-gg].z - hist[-1].z <= tol.z)
        obs.append(('COG g=%s'%g, z3.BoolVal(bool(r)) == spec))
    r = NCOG(tol, 2)(inst)
    a, b = hist[-2].z, hist[-1].z
    ab = lambda t: z3.If(t>=0, t, -t)
    spec = z3.Or(a == b, 2*(a-b) <= tol.z*(ab(a)+ab(b)) + z3.RealVal('1e-20'))
    obs.append(('NCOG', z3.BoolVal(bool(r)) == spec))
    return obs
s = explore(h_term); print({k:v for k,v in s.items() if k!='failed'}, s['failed'][:2])
