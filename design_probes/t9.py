import sys, time, z3, traceback
import symload; symload.install()
from symex import *
import numpy as np
def zz(v):
    if hasattr(v,'item') and not isinstance(v, SReal): v = v.item()
    return v.z if isinstance(v, SReal) else z3.RealVal(float(v).as_integer_ratio()[0])/z3.RealVal(float(v).as_integer_ratio()[1])
import mystic.constraints as C
def run(name, h, **kw):
    try:
        s = explore(h, timeout=kw.get('timeout',120))
        print(name, {k:v for k,v in s.items() if k!='failed'}, [(a,b) for a,b,_,_ in s['failed']][:3], flush=True)
    except BaseException as e:
        tb = traceback.extract_tb(e.__traceback__)
        print(name, 'ENGINE-ERR', type(e).__name__, str(e)[:160], [ (t.filename.split('/')[-1], t.lineno) for t in tb[-3:]], flush=True)
c1 = [z3.Function('c1_%d'%i, z3.RealSort(), z3.RealSort(), z3.RealSort()) for i in range(2)]
c2 = [z3.Function('c2_%d'%i, z3.RealSort(), z3.RealSort(), z3.RealSort()) for i in range(2)]
def mk(cf):
    def c(x):
        y = [g(zz(x[0]), zz(x[1])) for g in cf]
        for i,g in enumerate(cf): Ctx.cur.assume(g(*y) == y[i])    # idempotent
        return [SReal(v) for v in y]
    return c
def h_and(ctx):
    x = [SReal(z3.Real('x%d'%i)) for i in range(2)]
    flag = []
    a = C.and_(mk(c1), mk(c2), maxiter=2, onexit=lambda v: (flag.append('exit'), v)[1], onfail=lambda v: (flag.append('fail'), v)[1])
    y = a(list(x)); yz=[zz(v) for v in y]
    if flag == ['exit']:
        return [('fixed', z3.And(*[g(*yz)==yz[i] for cf in (c1,c2) for i,g in enumerate(cf)]))]
    return [('fail-fired', z3.BoolVal(flag == ['fail']))]


# Powell step with brent stub
import mystic.scipy_optimize as so
D=2
f = z3.Function('f', *([z3.RealSort()]*(D+1)))
A = z3.Function('alpha', *([z3.RealSort()]*(2*D+1)))
def F(x): return f(*[zz(v) for v in x])
cur = {}
def brent_stub(func, full_output=1, tol=None, maxiter=None, **kw):
    p, xi = cur['p'], cur['xi']
    a = SReal(A(*([zz(v) for v in p]+[zz(v) for v in xi])))
    return a, func(a), 1, 1
orig_ls = so._linesearch_powell
def ls(func, p, xi, tol=1e-3, maxiter=500):
    cur['p'], cur['xi'] = list(p), list(xi)
    return orig_ls(func, p, xi, tol=tol, maxiter=maxiter)
so._linesearch_powell = ls; so.brent = brent_stub
def h_pow(ctx):
    s = so.PowellDirectionalSolver(D)
    x0 = [SReal(z3.Real('x%d'%j)) for j in range(D)]
    s.population[0] = list(x0)
    from mystic.termination import VTR
    s.SetTermination(VTR(-1.0)); s.SetEvaluationLimits(100,1000)
    calls=[]
    def cost(x): calls.append(list(x)); return SReal(F(x))
    s.SetObjective(cost)
    obs=[]
    for k in range(3):
        s.Step()
        obs.append(('E@%d'%k, zz(s.popEnergy[0]) == F(s.population[0])))
        obs.append(('best@%d'%k, zz(s.bestEnergy) == F(s.bestSolution)))
        obs.append(('evals@%d'%k, z3.BoolVal(s.evaluations == len(calls))))
    eh = s.energy_history
    obs += [('mono%d'%i, zz(eh[i+1]) <= zz(eh[i])) for i in range(len(eh)-1)]
    return obs
run('powell 3 steps', h_pow, timeout=300)
