"""prototype: fork-on-bool symbolic executor over z3 reals (scratch)"""
import z3, time, math, numbers

class Abort(BaseException): pass      # path infeasible / pruned
class Unsupported(BaseException): pass

class Ctx:
    cur = None
    def __init__(self):
        self.solver = z3.Solver(); self.solver.set('timeout', 20000)
        self.decisions = []   # list of bool taken on this path
        self.preset = []      # forced prefix
        self.pc = []          # path condition conjuncts
        self.nfresh = 0
        self.checks = 0
    def fresh(self, pfx, sort='R'):
        self.nfresh += 1
        n = '%s!%d' % (pfx, self.nfresh)
        return z3.Real(n) if sort == 'R' else z3.Int(n) if sort == 'I' else z3.Bool(n)
    def sat(self, *extra):
        self.checks += 1
        self.solver.push()
        for e in extra: self.solver.add(e)
        r = self.solver.check()
        self.solver.pop()
        return r
    def assume(self, e):
        self.solver.add(e); self.pc.append(e)
    def branch(self, cond):
        """decide a symbolic boolean; returns python bool"""
        cond = z3.simplify(cond)
        if z3.is_true(cond): return True
        if z3.is_false(cond): return False
        i = len(self.decisions)
        if i < len(self.preset):
            d = self.preset[i]
            self.decisions.append(d)
            self.assume(cond if d else z3.Not(cond))
            return d
        t = self.sat(cond); f = self.sat(z3.Not(cond))
        if str(t) == 'unknown' or str(f) == 'unknown':
            raise Unsupported('unknown at branch')
        if str(t) == 'sat' and str(f) == 'sat':
            self.pending.append(self.decisions + [False])
            self.decisions.append(True); self.assume(cond); return True
        if str(t) == 'sat':
            self.decisions.append(True); self.assume(cond); return True
        if str(f) == 'sat':
            self.decisions.append(False); self.assume(z3.Not(cond)); return False
        raise Abort()

def _z(x):
    if isinstance(x, SReal): return x.z
    if isinstance(x, bool): return z3.RealVal(int(x))
    if isinstance(x, numbers.Integral): return z3.RealVal(int(x))
    if isinstance(x, numbers.Real):
        x = float(x)
        if math.isinf(x) or math.isnan(x): raise _Inf(x)
        return z3.RealVal(repr(x)) if False else z3.RealVal(float(x).as_integer_ratio()[0]) / z3.RealVal(float(x).as_integer_ratio()[1])
    return NotImplemented

class _Inf(Exception):
    def __init__(self, v): self.v = v

class SBool:
    def __init__(self, z): self.z = z
    def __bool__(self): return Ctx.cur.branch(self.z)
    def __and__(self, o): return SBool(z3.And(self.z, _zb(o)))
    __rand__ = __and__
    def __or__(self, o): return SBool(z3.Or(self.z, _zb(o)))
    __ror__ = __or__
    def __invert__(self): return SBool(z3.Not(self.z))
    def __eq__(self, o): return SBool(self.z == _zb(o))
    def __ne__(self, o): return SBool(self.z != _zb(o))
    def __hash__(self): return id(self)
    # arithmetic use of booleans (True*x)
    def _r(self): return SReal(z3.If(self.z, z3.RealVal(1), z3.RealVal(0)))
    def __mul__(self, o): return self._r()*o
    __rmul__ = __mul__
    def __add__(self, o): return self._r()+o
    __radd__ = __add__
    def __repr__(self): return 'SBool(%s)' % self.z
def _zb(o):
    if isinstance(o, SBool): return o.z
    return z3.BoolVal(bool(o))

class SReal:
    def __init__(self, z): self.z = z
    def _bin(self, o, f, rev=False):
        try: oz = _z(o)
        except _Inf as e: return self._inf(e.v, f, rev)
        if oz is NotImplemented: return NotImplemented
        a, b = (oz, self.z) if rev else (self.z, oz)
        return SReal(f(a, b))
    def _inf(self, v, f, rev):
        # finite symbolic op infinite concrete
        name = f.__name__
        if math.isnan(v): return v
        if name in ('add',): return v
        if name == 'sub': return -v if not rev else v
        if name == 'mul':
            if self > 0: return v
            if self < 0: return -v
            return float('nan')
        if name == 'div':
            if rev:  # inf / self
                if self > 0: return v
                if self < 0: return -v
                raise ZeroDivisionError
            return 0.0
        raise Unsupported(name)
    def __add__(self, o):
        def add(a,b): return a+b
        return self._bin(o, add)
    __radd__ = __add__
    def __sub__(self, o):
        def sub(a,b): return a-b
        return self._bin(o, sub)
    def __rsub__(self, o):
        def sub(a,b): return a-b
        return self._bin(o, sub, True)
    def __mul__(self, o):
        def mul(a,b): return a*b
        return self._bin(o, mul)
    __rmul__ = __mul__
    def __truediv__(self, o):
        def div(a,b): return a/b
        if isinstance(o, SReal):
            if o == 0: raise ZeroDivisionError('float division by zero')
        elif isinstance(o, numbers.Real) and o == 0: raise ZeroDivisionError('float division by zero')
        return self._bin(o, div)
    def __rtruediv__(self, o):
        def div(a,b): return a/b
        if self == 0: raise ZeroDivisionError('float division by zero')
        return self._bin(o, div, True)
    def __neg__(self): return SReal(-self.z)
    def __pos__(self): return self
    def __abs__(self): return SReal(z3.If(self.z >= 0, self.z, -self.z))
    def __pow__(self, n):
        if isinstance(n, numbers.Integral) and n >= 0:
            r = z3.RealVal(1)
            for _ in range(int(n)): r = r*self.z
            return SReal(r)
        if n == 0.5:
            s = Ctx.cur.fresh('sqrt')
            if self < 0: raise ValueError('negative number cannot be raised to a fractional power')
            Ctx.cur.assume(z3.And(s >= 0, s*s == self.z))
            return SReal(s)
        raise Unsupported('pow %r' % (n,))
    def _cmp(self, o, f, inf_lt):
        try: oz = _z(o)
        except _Inf as e:
            v = e.v
            if math.isnan(v): return False
            return inf_lt(v)
        if oz is NotImplemented: return NotImplemented
        return SBool(f(self.z, oz))
    def __lt__(self, o): return self._cmp(o, lambda a,b: a<b, lambda v: v>0)
    def __le__(self, o): return self._cmp(o, lambda a,b: a<=b, lambda v: v>0)
    def __gt__(self, o): return self._cmp(o, lambda a,b: a>b, lambda v: v<0)
    def __ge__(self, o): return self._cmp(o, lambda a,b: a>=b, lambda v: v<0)
    def __eq__(self, o): return self._cmp(o, lambda a,b: a==b, lambda v: False)
    def __ne__(self, o): return self._cmp(o, lambda a,b: a!=b, lambda v: True)
    def __hash__(self): return id(self)
    def __float__(self): raise Unsupported('float() of symbolic')
    def __repr__(self): return 'SReal(%s)' % z3.simplify(self.z)
    def __bool__(self): return bool(self != 0)

def explore(harness, max_paths=20000, timeout=600):
    """run harness(ctx) over all paths. harness returns list of (name, z3 bool) obligations."""
    pending = [[]]
    stats = dict(paths=0, aborted=0, checks=0, obligations=0, failed=[], t=0.0)
    t0 = time.time()
    while pending:
        if stats['paths'] >= max_paths or time.time()-t0 > timeout:
            stats['incomplete'] = True; break
        pre = pending.pop()
        ctx = Ctx(); ctx.preset = pre; ctx.pending = pending
        Ctx.cur = ctx
        try:
            obs = harness(ctx)
        except Abort:
            stats['aborted'] += 1; stats['checks'] += ctx.checks; continue
        stats['paths'] += 1
        for name, ob in obs or []:
            stats['obligations'] += 1
            r = ctx.sat(z3.Not(ob))
            if str(r) != 'unsat':
                ctx.solver.push(); ctx.solver.add(z3.Not(ob)); rr = ctx.solver.check(); m = ctx.solver.model() if str(rr)=='sat' else None; ctx.solver.pop()
                stats['failed'].append((name, str(r), list(ctx.decisions), m))
        stats['checks'] += ctx.checks
    stats['t'] = time.time()-t0
    return stats
