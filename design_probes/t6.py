import sys, time, z3, io
import symload; symload.install()
from symex import *
import symex
# make SReal picklable / deepcopy-able
def _red(self): return (symex._unpickle_sreal, (self.z.sexpr(), [str(d) for d in []]))
SReal.__deepcopy__ = lambda self, memo: self
SReal.__copy__ = lambda self: self
_reg = {}
def _unpickle_sreal(key, _): return _reg[key]
symex._unpickle_sreal = _unpickle_sreal
def _reduce(self):
    k = self.z.sexpr(); _reg[k] = self; return (_unpickle_sreal, (k, None))
SReal.__reduce__ = _reduce
import numpy as np, dill
import mystic.scipy_optimize as so
from mystic.solvers import LoadSolver
D=2
f = z3.Function('f', *([z3.RealSort()]*(D+1)))
def zz(v): return v.z if isinstance(v, SReal) else z3.RealVal(float(v).as_integer_ratio()[0])/z3.RealVal(float(v).as_integer_ratio()[1])
def cost(x): return SReal(f(*[zz(v) for v in x]))
def harness(ctx):
    s = so.NelderMeadSimplexSolver(D)
    x0 = [SReal(z3.Real('x%d'%j)) for j in range(D)]
    for v in x0: ctx.assume(v.z != 0)
    s.population[0] = list(x0)
    from mystic.termination import VTR
    s.SetTermination(VTR(-1.0)); s.SetEvaluationLimits(100,1000)
    s.SetObjective(cost)
    s.Step(); s.Step()
    s.SaveSolver('/tmp/proto/ck.pkl')
    r = LoadSolver('/tmp/proto/ck.pkl')
    s.Step(); r.Step()
    obs=[]
    for i in range(D+1):
        obs.append(('E%d'%i, zz(s.popEnergy[i]) == zz(r.popEnergy[i])))
        for j in range(D): obs.append(('P%d%d'%(i,j), zz(s.population[i][j]) == zz(r.population[i][j])))
    obs.append(('evals', z3.BoolVal(s.evaluations == r.evaluations)))
    obs.append(('gens', z3.BoolVal(s.generations == r.generations and len(s._stepmon)==len(r._stepmon))))
    return obs
s = explore(harness, timeout=600)
print({k:v for k,v in s.items() if k!='failed'}, [(a,b) for a,b,c,d in s['failed']][:5])
