import ast, z3, time, random
from mystic.symbolic import simplify, comparator
from fractions import Fraction
def tr(node, env, defs):
    if isinstance(node, ast.Expression): return tr(node.body, env, defs)
    if isinstance(node, ast.Constant):
        return z3.RealVal(str(Fraction(repr(node.value)) if isinstance(node.value, float) else node.value))
    if isinstance(node, ast.Name): return env.setdefault(node.id, z3.Real(node.id))
    if isinstance(node, ast.UnaryOp):
        v = tr(node.operand, env, defs); return -v if isinstance(node.op, ast.USub) else v
    if isinstance(node, ast.BinOp):
        a, b = tr(node.left, env, defs), tr(node.right, env, defs)
        if isinstance(node.op, ast.Add): return a+b
        if isinstance(node.op, ast.Sub): return a-b
        if isinstance(node.op, ast.Mult): return a*b
        if isinstance(node.op, ast.Div): defs.append(b != 0); return a/b
        if isinstance(node.op, ast.Pow) and isinstance(node.right, ast.Constant) and isinstance(node.right.value, int):
            r = z3.RealVal(1)
            for _ in range(node.right.value): r = r*a
            return r
    raise NotImplementedError(ast.dump(node))
def line(l, env, defs):
    c = comparator(l); lhs, rhs = l.split(c, 1)
    a, b = tr(ast.parse(lhs.strip(), mode='eval'), env, defs), tr(ast.parse(rhs.strip(), mode='eval'), env, defs)
    return {'<':a<b,'<=':a<=b,'>':a>b,'>=':a>=b,'=':a==b,'==':a==b,'!=':a!=b}[c]
def system(txt, env, defs):
    return z3.And(*[line(l, env, defs) for l in txt.strip().split('\n') if l.strip()])
tests = ["x0 - 2*x1 <= 3\n-x1 + x2 > 1", "x0/x1 <= 3", "-3*x0 + 1.5*x1 < x2 - 7\nx1 >= -2.5*x2", "x0*x1 > 2", "x0 = 4*x1 - x2\nx1 + x2 >= 2e-7", "x1/(x0-1) >= 2"]
for t in tests:
    random.seed(1)
    t0=time.time(); out = simplify(t, all=True); ts=time.time()-t0
    outs = out if isinstance(out, tuple) else (out,)
    env, d_in, d_out = {}, [], []
    S = system(t, env, d_in)
    O = z3.Or(*[system(o, env, d_out) for o in outs])
    s = z3.Solver(); s.set('timeout', 30000)
    s.add(z3.And(*d_in) if d_in else True)   # points where the input is defined
    s.add(S != O)
    t0=time.time(); r = s.check()
    print(repr(t), '=>', outs, '| simplify %.2fs | z3 %s %.2fs' % (ts, r, time.time()-t0), s.model() if str(r)=='sat' else '')
