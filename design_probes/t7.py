import sys, time, z3
import symload; symload.install()
from symex import *
import mystic.symbolic as ms
import mystic.collapse as mc
from mystic.monitors import Monitor
def zz(v): return v.z if isinstance(v, SReal) else z3.RealVal(float(v).as_integer_ratio()[0])/z3.RealVal(float(v).as_integer_ratio()[1])
texts = {"x0 >= 2*x1 + 3": lambda x: x[0] >= 2*x[1]+3, "x0 < x1": lambda x: x[0] < x[1], "x2 > 3\nx2 != 4": lambda x: z3.And(x[2] > 3, x[2] != 4), "x1 = x0*x2 - 1.5": lambda x: x[1] == x[0]*x[2] - z3.RealVal('3/2')}
for t, rel in texts.items():
    c = ms.generate_constraint(ms.generate_solvers(t, nvars=3))
    lhs = int(t.split()[0][1:])
    def h(ctx, c=c, rel=rel, lhs=lhs):
        x = [SReal(z3.Real('x%d'%i)) for i in range(3)]
        y = c(list(x))
        xz = [v.z for v in x]; yz = [zz(v) for v in y]
        return [('holds', rel(yz)), ('others', z3.And(*[yz[i]==xz[i] for i in range(3) if i != lhs])), ('identity-if-feasible', z3.Implies(rel(xz), z3.And(*[yz[i]==xz[i] for i in range(3)])))]
    s = explore(h, timeout=60)
    print(repr(t), {k:v for k,v in s.items() if k!='failed'}, [(a,b) for a,b,_,_ in s['failed']])
# collapse_at
def hc(ctx):
    G, n = 3, 2
    m = Monitor()
    H = [[SReal(z3.Real('h%d_%d'%(g,i))) for i in range(n)] for g in range(G)]
    for g in range(G): m(list(H[g]), 0.0)
    tol = SReal(z3.Real('tol')); ctx.assume(tol.z >= 0)
    r = mc.collapse_at(m, tolerance=tol, generations=2)
    obs=[]
    for i in range(n):
        vals=[H[g][i].z for g in (1,2)]
        mx = z3.If(vals[0]>=vals[1], vals[0], vals[1]); mn = z3.If(vals[0]<=vals[1], vals[0], vals[1])
        obs.append(('idx%d'%i, z3.BoolVal(i in r) == (mx-mn <= tol.z)))
    r2 = mc.collapse_at(m, tolerance=tol, generations=2, mask=set(int(i) for i in r))
    obs.append(('fixpoint', z3.BoolVal(len(r2)==0)))
    return obs
s = explore(hc, timeout=120)
print('collapse_at', {k:v for k,v in s.items() if k!='failed'}, [(a,b) for a,b,_,_ in s['failed']][:3])
