import sys, time, z3
import symload; symload.install()
from symex import *
from symload import symrandom
import mystic.differential_evolution as de
import mystic.strategy as st
print('loaded', de.__file__, de.__builtins__ is symload.SYM_BUILTINS)

NP, D = 4, 2
f = z3.Function('f', z3.RealSort(), z3.RealSort(), z3.RealSort())
def zz(v): return v.z if isinstance(v, SReal) else z3.RealVal(repr(float(v))) if False else (z3.RealVal(float(v).as_integer_ratio()[0])/z3.RealVal(float(v).as_integer_ratio()[1]))
def F(x): return f(zz(x[0]), zz(x[1]))

def make(focus, strat):
    def harness(ctx):
        symrandom.log = []
        s = de.DifferentialEvolutionSolver(D, NP)
        pop = [[SReal(z3.Real('p%d_%d'%(i,j))) for j in range(D)] for i in range(NP)]
        best = [SReal(z3.Real('b%d'%j)) for j in range(D)]
        s.population = [list(p) for p in pop]
        s.popEnergy = [SReal(F(p)) for p in pop]
        import numpy as np
        s.bestSolution = np.array(best, dtype=object)
        be = SReal(F(best)); s.bestEnergy = be
        for i in range(NP): ctx.assume(be.z <= F(pop[i]))
        s._stepmon(list(best), be)      # generation 0 already logged
        calls = []
        def cost(x):
            calls.append(list(x)); return SReal(F(x))
        real = getattr(st, strat)
        conc = iter(())
        def strategy(inst, cand):
            symrandom.concrete = (cand != focus)
            return real(inst, cand)
        strategy.__name__ = strat
        s.SetEvaluationLimits(100, 1000)
        from mystic.termination import VTR
        s.SetTermination(VTR(-1.0))   # won't trigger: abs() <= -1 false
        s.Step(cost, strategy=strategy)
        obs = []
        for i in range(NP):
            obs.append(('popE[%d]'%i, zz(s.popEnergy[i]) == F(s.population[i])))
        obs.append(('bestE', zz(s.bestEnergy) == F(s.bestSolution)))
        obs.append(('mono', zz(s.bestEnergy) <= be.z))
        for i in range(NP): obs.append(('best<=pop%d'%i, zz(s.bestEnergy) <= zz(s.popEnergy[i])))
        obs.append(('ncalls', z3.BoolVal(len(calls) == NP and s.evaluations == NP)))
        return obs
    return harness

# concrete mode for random shim
_orig_random = type(symrandom).random; _orig_rr = type(symrandom).randrange
def random(self):
    if getattr(self, 'concrete', False): return 1.0
    return _orig_random(self)
def randrange(self, n):
    if getattr(self, 'concrete', False): return 0
    return _orig_rr(self, n)
type(symrandom).random = random; type(symrandom).randrange = randrange

for strat in ('Best1Bin', 'Rand1Exp'):
  for focus in (0, 3):
    t=time.time(); s = explore(make(focus, strat), max_paths=100000, timeout=900)
    print(strat, focus, {k:v for k,v in s.items() if k!='failed'}, len(s['failed']), s['failed'][:1])
