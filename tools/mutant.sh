#!/bin/sh
# tools/mutant.sh <ID> <file-relative-to-repo> <sed-expr> [extra check args]
# Self-test helper: copy /repo/mystic to a scratch dir OUTSIDE /repo and /verif, apply one edit,
# run the check against the copy (VERIF_REPO), delete the copy.  Never touches /repo.
ID=$1; F=$2; E=$3; shift 3
D=$(mktemp -d /tmp/mut-XXXXXX)
trap 'rm -rf "$D"' EXIT
mkdir -p "$D/repo"; cp -r /repo/mystic "$D/repo/mystic"
rm -rf "$D/repo/mystic/tests" "$D/repo/mystic/models/__pycache__"
find "$D/repo" -name __pycache__ -type d -exec rm -rf {} + 2>/dev/null
sed -i "$E" "$D/repo/$F"
if cmp -s "$D/repo/$F" "/repo/$F"; then echo "MUTANT-NOOP: sed changed nothing"; exit 9; fi
diff "/repo/$F" "$D/repo/$F" | head -6
VERIF_REPO="$D/repo" /verif/check "$ID" --no-evidence "$@" 2>&1 | grep -v "^  " | tail -8
