#!/bin/sh
# Build the overlay venv /verif/.venv (python of /venv + its site-packages + z3-solver from the
# offline wheelhouse).  Idempotent; offline; ~5 s.
set -e
V=/verif/.venv
if [ -x "$V/bin/python" ] && "$V/bin/python" -c 'import z3, numpy' 2>/dev/null; then exit 0; fi
rm -rf "$V"
/venv/bin/python -m venv "$V"
SP=$("$V/bin/python" -c 'import sysconfig; print(sysconfig.get_paths()["purelib"])')
echo "import site; site.addsitedir('/venv/lib/python3.12/site-packages')" > "$SP/_base.pth"
PIP_NO_INDEX=1 "$V/bin/python" -m pip install -q --no-index --find-links /opt/veriftools/wheels z3-solver >/dev/null
"$V/bin/python" -c 'import z3, numpy; print("overlay venv ready: z3", z3.get_version_string(), "numpy", numpy.__version__)'
