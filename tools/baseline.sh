#!/bin/sh
# tools/baseline.sh [repo-dir]  - run the pinned suite (guard OFF) and compare with BASELINE.json's stable_pass list.
R=${1:-/repo}
T=$(mktemp -d /tmp/bl-XXXXXX)
trap 'rm -rf "$T"' EXIT
cd "$R" && env -u MYSTIC_VERIF /venv/bin/python -m pytest -ra -q -p no:cacheprovider --timeout=900 --continue-on-collection-errors --junitxml="$T/j.xml" >"$T/out.txt" 2>&1
/venv/bin/python - "$T/j.xml" <<'EOF'
import sys, json, xml.etree.ElementTree as ET
base = set(json.load(open('/root/.vp/BASELINE.json'))['stable_pass'])
ok = set()
for tc in ET.parse(sys.argv[1]).getroot().iter('testcase'):
    if not any(c.tag in ('failure', 'error', 'skipped') for c in tc):
        ok.add('%s::%s' % (tc.get('classname'), tc.get('name')))
missing = sorted(base - ok)
print('baseline: %d/%d stable tests pass' % (len(base & ok), len(base)))
for m in missing[:20]:
    print('  MISSING', m)
sys.exit(1 if missing else 0)
EOF
