#!/bin/sh
# tools/seedtest.sh <ID> <variant-dir> [--suite] [check args...]
# Confirm a seeded change (patch.diff + demo.py) in a scratch worktree OUTSIDE /repo and /verif and run the
# property's check against it (VERIF_REPO points the symbolic loader at the scratch tree).  Never touches /repo.
ID=$1; V=$2; shift 2
SUITE=0; if [ "$1" = "--suite" ]; then SUITE=1; shift; fi
W=$(mktemp -d /tmp/seedtest-XXXXXX)
trap 'git -C /repo worktree remove --force "$W/wt" >/dev/null 2>&1; rm -rf "$W"' EXIT
git -C /repo worktree add --detach "$W/wt" HEAD -q || exit 9
cp /repo/mystic/__info__.py "$W/wt/mystic/" 2>/dev/null
cd "$W/wt"
/venv/bin/python "$V/demo.py" >"$W/demo0.txt" 2>&1; D0=$?
git apply "$V/patch.diff" || { echo "SEED patch does not apply to /repo HEAD"; exit 8; }
/venv/bin/python "$V/demo.py" >"$W/demo1.txt" 2>&1; D1=$?
echo "SEED $ID $(basename $V): demo on original exit=$D0, on changed exit=$D1 ($(tail -1 $W/demo1.txt | cut -c1-150))"
if [ $SUITE = 1 ]; then
  /verif/tools/baseline.sh "$W/wt" | head -3
fi
cd /verif
VERIF_REPO="$W/wt" ./check "$ID" --no-evidence "$@" >"$W/check.txt" 2>&1; C=$?
grep -E "^(VIOLATION|KNOWN|RESULT|HARNESS|INCONCLUSIVE)" "$W/check.txt" | cut -c1-220 | head -8
echo "SEED $ID $(basename $V): check exit=$C"
