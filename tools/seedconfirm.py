#!/usr/bin/env python3
"""tools/seedconfirm.py <ID> <variant-dir> [--no-suite] [--tier quick|thorough] [--keep | --update-check]

Confirm a seeded change handed back by a sub-agent, in a scratch worktree outside /repo and /verif:
  1. demo.py exits 0 on the unchanged tree,
  2. the patch applies, demo.py exits non-zero on the changed tree,
  3. the pinned suite still passes with the change (213/213 stable tests),
  4. the property's check (VERIF_REPO -> scratch tree) reports VIOLATION (exit 1) or not.
With --keep, store patch.diff, demo.py and meta.json (incl. what was run and what came out) in /verif/seeded/<ID>-<variant>/.
The scratch worktree is removed afterwards.  /repo is never modified.
"""
import json
import os
import shutil
import subprocess
import sys
import tempfile

VERIF = os.path.dirname(os.path.dirname(os.path.abspath(__file__)))


def run(cmd, cwd=None, env=None, timeout=3600):
    p = subprocess.run(cmd, cwd=cwd, env=env, capture_output=True, text=True, timeout=timeout)
    return p.returncode, (p.stdout + p.stderr)


def main():
    args = sys.argv[1:]
    pid, vdir = args[0], os.path.abspath(args[1])
    suite = '--no-suite' not in args
    keep = '--keep' in args
    tier = args[args.index('--tier') + 1] if '--tier' in args else 'quick'
    variant = os.path.basename(vdir.rstrip('/'))
    import re
    m = re.search(r'/(r\d+)-', vdir)
    if m:
        variant = m.group(1) + variant
    tmp = tempfile.mkdtemp(prefix='seedconf-')
    wt = os.path.join(tmp, 'wt')
    res = dict(property=pid, variant=variant)
    try:
        rc, out = run(['git', '-C', '/repo', 'worktree', 'add', '--detach', wt, 'HEAD', '-q'])
        if rc:
            print('worktree failed', out)
            return 9
        if os.path.exists('/repo/mystic/__info__.py'):
            shutil.copy('/repo/mystic/__info__.py', os.path.join(wt, 'mystic'))
        demo = os.path.join(vdir, 'demo.py')
        rc0, out0 = run(['/venv/bin/python', demo], cwd=wt)
        rca, outa = run(['git', 'apply', os.path.join(vdir, 'patch.diff')], cwd=wt)
        res['patch_applies_to_repo_head'] = (rca == 0)
        if rca:
            print('SEED %s %s: patch does not apply: %s' % (pid, variant, outa[-300:]))
            return 8
        rc1, out1 = run(['/venv/bin/python', demo], cwd=wt)
        res['demo_original_exit'], res['demo_changed_exit'] = rc0, rc1
        res['demo_changed_last_line'] = (out1.strip().splitlines() or [''])[-1][:300]
        if suite:
            rcs, outs = run([os.path.join(VERIF, 'tools', 'baseline.sh'), wt])
            res['suite_exit'] = rcs
            res['suite_result'] = (outs.strip().splitlines() or [''])[0][:200]
        env = dict(os.environ, VERIF_REPO=wt)
        rcc, outc = run([os.path.join(VERIF, 'check'), pid, '--no-evidence', '--tier', tier], cwd=VERIF, env=env, timeout=7200)
        res['check_cmd'] = 'VERIF_REPO=<scratch worktree with the patch applied> ./check %s --tier %s' % (pid, tier)
        res['check_exit'] = rcc
        res['check_lines'] = [l[:260] for l in outc.splitlines() if l.startswith(('VIOLATION', 'KNOWN', 'RESULT', 'HARNESS', 'INCONCLUSIVE'))][:8]
        res['detected'] = (rcc == 1 and any(l.startswith('VIOLATION') for l in res['check_lines']))
        print(json.dumps(res, indent=1))
        if '--update-check' in args:
            # a seed kept earlier (demo and suite confirmed then): only refresh what the check says now
            dst = os.path.join(VERIF, 'seeded', '%s-%s' % (pid, variant))
            meta = json.load(open(os.path.join(dst, 'meta.json')))
            first = meta.get('check')
            if first and not first.get('detected') and 'first_run' not in meta:
                meta['first_run'] = dict(first, note='before the check was strengthened')
            meta['check'] = dict(cmd=res['check_cmd'], exit=rcc, detected=res['detected'], lines=res['check_lines'])
            json.dump(meta, open(os.path.join(dst, 'meta.json'), 'w'), indent=1)
            print('updated', dst)
            return 0
        ok = rc0 == 0 and rc1 != 0 and (not suite or res.get('suite_exit') == 0)
        if keep and ok:
            dst = os.path.join(VERIF, 'seeded', '%s-%s' % (pid, variant))
            os.makedirs(dst, exist_ok=True)
            shutil.copy(os.path.join(vdir, 'patch.diff'), dst)
            shutil.copy(demo, dst)
            meta = {}
            mp = os.path.join(vdir, 'meta.json')
            if os.path.exists(mp):
                try:
                    meta = json.load(open(mp))
                except Exception:
                    meta = {}
            meta = dict(property=pid, breaks=pid, summary=meta.get('summary', ''), needs_to_manifest=meta.get('needs', ''),
                        author='independent sub-agent (saw only the property text and its own scratch worktree)',
                        confirmed_by_me=dict(demo_on_unchanged_tree_exit=rc0, demo_on_changed_tree_exit=rc1,
                                             demo_changed_last_line=res['demo_changed_last_line'],
                                             pinned_suite_with_change=res.get('suite_result', 'not run'),
                                             how='tools/seedconfirm.py in a scratch git worktree of /repo HEAD (removed afterwards)'),
                        check=dict(cmd=res['check_cmd'], exit=rcc, detected=res['detected'], lines=res['check_lines']))
            json.dump(meta, open(os.path.join(dst, 'meta.json'), 'w'), indent=1)
            print('kept in', dst)
        return 0
    finally:
        subprocess.run(['git', '-C', '/repo', 'worktree', 'remove', '--force', wt], capture_output=True)
        shutil.rmtree(tmp, ignore_errors=True)


if __name__ == '__main__':
    sys.exit(main())
