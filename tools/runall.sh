#!/bin/sh
# tools/runall.sh [quick|thorough]  - run every registered check once (refreshes evidence/), print one line each
T=${1:-quick}
cd "$(dirname "$0")/.."
for p in C01 C02 C03 C04 C05 C06 C07 C08 C09 C10 C11 C12 C13 C14 C15 C16 C17 C18 C19 C20; do
  s=$(date +%s)
  out=$(./check $p --tier $T 2>&1); rc=$?
  e=$(( $(date +%s) - s ))
  echo "$p rc=$rc ${e}s $(echo "$out" | grep -E '^RESULT' | tail -1) $(echo "$out" | grep -cE '^KNOWN-FINDING') known"
  [ $rc -ne 0 ] && echo "$out" | grep -E "VIOLATION|INCONCLUSIVE|HARNESS" | head -5 | cut -c1-220
done
