#!/usr/bin/env python3
"""Regenerate /verif/MANIFEST.json from the table below (one entry per property)."""
import json
import os

V = os.path.dirname(os.path.dirname(os.path.abspath(__file__)))

TECH = 'symbolic execution of the unmodified mystic source over z3 (fork-on-branch, per-path SMT obligations, replayed counterexamples)'
NOTE_COMMON = ('floats modelled as exact reals (NaN and rounding outside the claim); bounds as listed in the evidence file; '
               'user-supplied callables are uninterpreted functions, random draws fresh solver variables; trusted base: z3, '
               'numpy object-array dispatch, the symex engine (validated each run by concrete witness replays against the unhooked code)')

# id -> (ready, category, text, design_ref, extra note, not_applicable reason if not ready)
P = {
    'C15': (True, 'model_checking',
            'All nine penalty closures are executed symbolically with solver-quantified condition value, k>0, h>0 and decorated '
            'value; every path (<=3 per instance) is closed by z3 against the documented formula, zero-on-feasible, '
            'positive-on-violated, error()=violation magnitude, iter/clear/store programs and stacking. Exhaustive over all reals '
            'within the enumerated iteration counts / op programs.', 'DESIGN.md#c15', ''),
    'C10': (True, 'model_checking',
            'Every termination factory is called on a solver-state object whose energy history (entries real or +inf), tolerances, '
            'targets, populations, energies, counters and clock instants are solver variables; each path of the real code is closed '
            'against the documented inequality (iff). And/Or/When trees (all shapes up to the bound, real leaves with independent '
            'solver-chosen truth values) are checked against the propositional reading, exact info strings, self/not partitions; '
            'leaf conditions rebuilt from state() give the same verdict.', 'DESIGN.md#c10', ''),
}

P.update({
    'C01': (True, 'model_checking',
            'Inductive step of every solver on the real code: from an arbitrary state satisfying the representation invariant (stored energy = objective at '
            'each member, best = minimal member, simplex sorted) one real Step() of DE, DE2 (all draws of a focus candidate symbolic), Nelder-Mead and Powell '
            '(Brent by contract) re-establishes the invariant, reports an evaluated point with energy = reducer(cost)+penalty at that point, never worse than '
            'before / than the initial guess; plus the decoration stack and the fmin/fmin_powell/diffev/diffev2 return tuples. Cost, penalty and constraints '
            'are uninterpreted functions, so every path verdict is over all cost functions.', 'DESIGN.md#c01', ''),
    'C02': (True, 'model_checking',
            'The raw-cost stub logs every argument it receives; for every path of the real steps (all four solvers, symbolic box, with/without constraints, '
            'constraints that push points out, ranges installed mid-run on an arbitrary state, tight/clip modes on concrete boxes) z3 shows lo<=x<=hi for every '
            'logged call, finite best inside the box; wrap_bounds, _clipGuessWithinRangeBoundary and SetRandomInitialPoints are closed against their contracts.',
            'DESIGN.md#c02', ''),
    'C03': (True, 'model_checking',
            'Same step scenarios with an uninterpreted idempotent constraints function (pure and in-place): every logged cost argument is a fixed point of c, '
            'the reported solution is a fixed point and its energy is the energy of that point after every step (every post-state is a stopping point); '
            'constraints installed mid-run on an arbitrary state; mystic-generated constraints plugged into real steps.', 'DESIGN.md#c03', ''),
    'C04': (True, 'model_checking',
            'Per step: evaluations advance by exactly the number of raw cost calls, a real Monitor used as evaluation monitor gains exactly those (x, cost(x)) '
            'pairs in order, one step-monitor record equal to the reported best, one callback with the current best, energy history non-increasing ending in '
            'bestEnergy; enumerated API-call programs (Step/Set*/Finalize/Solve) keep evaluations == total cost calls and the current evaluation monitor complete.',
            'DESIGN.md#c04', ''),
})
P.update({
    'C13': (True, 'model_checking',
            'The exec-generated constraint functions are called on a solver-quantified vector; z3 closes, per path, that the stated relation holds on the output '
            '(strictly for < > !=), that only the isolated variable changes and that feasible input passes through unchanged (with margin tolerance(rhs) for strict '
            'comparators; inside the band it is the recorded finding D4); multi-line non-feeding systems, named variables, bounds constraints; strictness under IEEE '
            'doubles is a QF_FP lemma over the tolerance() kernel read from the source.', 'DESIGN.md#c13', ''),
    'C14': (True, 'model_checking',
            'generate_conditions / generate_penalty products are called on a solver-quantified vector: condition value = oriented lhs-rhs, <=0 iff relation '
            '(=0 iff equality), strict comparators within tolerance; penalty zero iff every line satisfied, positive otherwise, equal to the documented per-line sum; '
            'penalty(constraint(x)) = 0 for text compiled both ways; 12-variable texts (x1 vs x10).', 'DESIGN.md#c14', ''),
    'C17': (True, 'model_checking',
            'constraints.and_/or_/not_ are run with independent uninterpreted idempotent members and solver-chosen cycle-breaking draws: on every path that returns '
            'through onexit the result is fixed by every / some member (changed by the member for not_), otherwise onfail fired exactly once; coupler identities with '
            'uninterpreted f, c, p; penalty and_/or_/not_ zero-sets.', 'DESIGN.md#c17', ''),
    'C20': (True, 'model_checking',
            'Operation programs over two real Monitors (call, extend, prepend, +, slices, int/list index) with solver-quantified x, y (scalar or vector), ids and '
            'k != 0: after every operation each monitor equals the harness shadow list record by record; operands are never altered. File half: a real '
            'LoggingMonitor / write_raw|support|converge_file writes records whose symbolic scalars print as tokens that the real readers (logfile_reader, '
            'read_trajectories, read_history, read_raw|support|converge_file) evaluate back to the same symbols; ids are symbolic integers or None: one entry per '
            'logged call, iteration/id, parameters, costs and shapes as recorded.',
            'DESIGN.md#c20', 'The decimal text of floats is outside (tokens bypass formatting; only inf/nan/-inf and replayed witnesses use real formatting).'),
})
P.update({
    'C16': (True, 'model_checking',
            'Every constraint decorator is applied to the identity and called on a solver-quantified vector (list and ndarray), for enumerated index selections '
            '(None, single, negative, out of range): selected entries land in the target set (nearest member / nearest integer / given digits / order / pinned value '
            '/ tracked partner / interval), unselected and already-conforming entries are unchanged, g(g(x)) = g(x); the statistics decorators reach their target up to '
            'the documented almostEqual tolerance; tools.masked/partial/synchronized/clipped/suppressed rewrite exactly the addressed entries.', 'DESIGN.md#c16', ''),
    'C18': (True, 'model_checking',
            'impose_mean/variance/std/spread/moment, normalize/impose_sum/impose_weight_norm, impose_support/unweighted/collapse, median/tmean variants and the '
            'definitions (mean, variance, moments, expectation, ess_*, L-p norms, distances) are executed on solver-quantified samples and targets with enumerated '
            'exact-rational weight vectors; each path is closed in QF_NRA (polynomial identities by exact normalisation) against the textbook weighted formulas: '
            'target hit, promised quantities preserved.', 'DESIGN.md#c18', ''),
    'C19': (True, 'model_checking',
            'For enumerated shapes (<=3 factors x <=3 points) with solver-quantified weights, positions and values: flatten/load/unflatten, compose/decompose, '
            '_pack/_unpack, split_param are mutual inverses entry by entry; update() changes exactly the addressed factors; product weights are products of factor '
            'weights, positions the Cartesian product in the documented order; expect/expect_var/pof/support/mean_value/pof_value equal explicit sums over the weighted '
            'points with uninterpreted integrands; center_mass/range/var setters achieve their value.', 'DESIGN.md#c19', ''),
})
P.update({
    'C05': (True, 'model_checking',
            'The real Step/_Solve/Solve/Terminated/SetEvaluationLimits code is executed with only `_Step` replaced by a counting stub, so the counters, both limits '
            '(incl. None), the termination verdict per generation and the exit flag are solver variables: no iteration begins when a stop condition holds, one is '
            'performed otherwise, the message names a true condition, Solve returns with generations <= limit and the last iteration begun below the evaluation '
            'limit, new=True adds the current counters, a second Solve does nothing; the real NM/Powell/DE/DE2 steps and the wrappers are run under small limits.',
            'DESIGN.md#c05', 'asynchronous SIGINT delivery is not modelled (the handler is driven directly).'),
})
P.update({
    'C08': (True, 'translation_validation',
            'Differential check of the real steps against reference transcriptions of the published iterations over one shared uninterpreted cost: Nelder-Mead '
            'iteration == scipy.optimize.fmin iteration (same simplex as multiset, same evaluation count; adaptive too; initial simplex rule; the transcription is '
            'validated each run against the vendored scipy fmin), Powell generations 0..2 == scipy fmin_powell direction-set loop under one shared line-search oracle '
            '(same points, energies and evaluation sequence), all ten DE strategies (components are parent or base+F*differences of distinct partners, crossover rule), '
            'strictly-lower selection.', 'DESIGN.md#c08', ''),
})
P.update({
    'C09': (True, 'model_checking',
            'Kernels of the ensemble solvers on the real code: the reduction (__update_bestSolver/__update_state) over 1-4 real member solvers with solver-chosen '
            'energies, solutions and counters, two rounds (step mode): ensemble best = minimum over members, solution = that member\'s, total evaluations = sum; '
            'LatticeSolver._InitialPoints (tuple and integer bins, symbolic box): exactly prod(bins) points, each the centre of its own cell, inside the ranges; '
            'Buckshot/samplepts inside the ranges; gridpts = full Cartesian product; randomly_bin: product N, length ndim. Whole tiny solves through the public API '
            '(lattice 2 / 3 / 2x1 bins, buckshot 2 points, NM / Powell members, generation limit 1-2, symbolic box, uninterpreted cost / penalty / constraints): '
            'members as requested, started at distinct cell centres, every real cost call inside the box and constrained, member energies truthful, limit obeyed, '
            'best = minimum, total evaluations = sum over members = number of real cost calls.', 'DESIGN.md#c09',
            'NOT CLAIMED: larger ensembles / longer member runs, DE members in whole solves, sparsity/fillpts, wrapper return tuples.'),
})
P.update({
    'C11': (True, 'model_checking',
            'collapse_at / collapse_as / collapse_weight are run on real Monitors holding a solver-quantified history with a symbolic tolerance: an index / pair / weight '
            'is reported iff its documented test holds over the window and it is not masked (every accepted mask format), and the detector\'s own output as mask yields '
            'nothing; staged collapses through termination -> collapsed() -> update_mask keep and grow the mask; in real NM / DE / DE2 solvers a fired CollapseAt / '
            'CollapseAs followed by Collapse() makes every later evaluated point satisfy the relation exactly, also after a second collapse, and is not reported again.',
            'DESIGN.md#c11', 'collapse_cost and termination of the whole collapse loop beyond the unrolled steps are outside the claim.'),
})
P.update({
    'C12': (True, 'translation_validation',
            'Each generated system (and the fixed corpus) is passed through the real simplify(all=True) / solve / linear_symbolic / symbolic_bounds; input and every '
            'returned case are translated by an independent ast->z3 interpreter and z3 decides over all real evaluation points the two inclusions strong(input) => '
            'weak(output) and strong(output) => weak(input) with margin 1e-9*(1+|x|) (absorbs only sympy\'s 15-digit printing), plus exact equivalence (boundary points '
            'included) when all coefficients are dyadic; counterexample points are re-evaluated with Python eval.', 'DESIGN.md#c12', ''),
})
P.update({
    'C06': (True, 'model_checking',
            'A real solver (NM, Powell, DE, DE2; bounds/constraints/penalty) is run from a symbolic start to generation k, then saved and restored through the real '
            'SaveSolver/LoadSolver, the SetSaveFrequency dump, dill.copy and copy.deepcopy (symbolic scalars travel through the pickle); original and restored solver '
            'then take one more real step under the same recorded random draws and the same uninterpreted cost: z3 closes equality of populations, energies, best, '
            'counters, both monitors and Powell\'s direction set, independence (advancing one leaves the other untouched) and own evaluation counting.',
            'DESIGN.md#c06', 'byte-level restart-file equality and file-system faults are outside the claim.'),
})
P.update({
    'C07': (True, 'model_checking',
            'For enumerated subsets of Set* methods every call order (k! permutations) is applied to a fresh real solver (NM, Powell, DE, DE2) with symbolic arguments, '
            'followed by real Steps under the recorded random draws of the reference order: z3 closes equality of the complete post-states and evaluation sequences, '
            'and any order that consumes randomness differently is reported; DE2 is run with maps that evaluate the work items in every order (optionally interleaved '
            'with foreign work) and must reproduce the serial-map trajectory.', 'DESIGN.md#c07',
            'NOT CLAIMED: real thread/process maps (preemption inside the cost), ensemble step-wise vs run-to-completion equality.'),
})

NOT_YET = 'check not built yet in this round (planned: DESIGN.md section 4)'


def main():
    props = [json.loads(l) for l in open(os.path.join(V, 'properties.jsonl'))]
    checks, na = [], []
    for p in props:
        pid = p['id']
        e = P.get(pid)
        if e and e[0]:
            checks.append(dict(
                property_id=pid,
                quick_cmd='./check %s --tier quick' % pid,
                thorough_cmd='./check %s --tier thorough' % pid,
                evidence_file='evidence/%s.json' % pid,
                replay_cmd_template='./check --replay {path}',
                engine='symex',
                level_claimed=dict(category=e[1], text=e[2], design_ref=e[3]),
                level_note=(e[4] + ' ' if e[4] else '') + NOTE_COMMON,
                technique=TECH if len(e) < 6 else e[5],
            ))
        else:
            na.append(dict(property_id=pid, reason=(e[5] if e and len(e) > 5 else NOT_YET)))
    m = dict(
        version=1,
        setup_cmd='./tools/bootstrap.sh',
        hooks=dict(guard='MYSTIC_VERIF', enable='no source hooks are needed: the symbolic loader runs /repo\'s files unmodified (checks export MYSTIC_VERIF=1 for uniformity)',
                   baseline_off_cmd='cd /repo && /venv/bin/python -m pytest -ra -q -p no:cacheprovider --timeout=900 --continue-on-collection-errors',
                   source_commits=[], add_only=True),
        engines=[dict(name='symex', path='symex/', serves_properties=[c['property_id'] for c in checks],
                      kind_free_text='purpose-built symbolic executor for Python: SReal/SInt/SBool over z3 terms, fork on __bool__, DFS by re-execution; '
                                     'meta-path loader runs /repo/mystic/*.py unchanged with shimmed numpy/random/math; obligations closed by z3, '
                                     'counterexamples replayed on the real code')],
        checks=checks,
        not_applicable=na,
        notes='Exit codes of every check: 0 held, 1 VIOLATION (replayed), 2 inconclusive (budget/unknown), 3 harness error. '
              'VERIF_REPO=<dir> points the loader at another checkout (used only by the mutant self-tests).',
    )
    json.dump(m, open(os.path.join(V, 'MANIFEST.json'), 'w'), indent=1)
    print('MANIFEST: %d checks, %d not_applicable' % (len(checks), len(na)))


if __name__ == '__main__':
    main()
