"""Run the UNMODIFIED mystic source symbolically.

A sys.meta_path finder claims `mystic` and `mystic.*`, reads the file from the repository
(VERIF_REPO, default /repo), compiles it unchanged and executes it in a module whose
`__builtins__` is a substitute dict: `float`/`int` let symbolic scalars through, `__import__`
resolves numpy / random / math (and `time` for mystic.termination) to symbolic-aware shims.
No AST rewriting; exec/eval-generated code inherits the same builtins.
"""
import builtins
import importlib
import importlib.abc
import importlib.machinery
import math as _math
import numbers
import os
import sys
import types

import numpy as _np
import z3

from .values import SReal, SBool, SInt, Ctx, Unsupported, unwrap, zr, fval, is_sym
from . import stubs

REPO = os.environ.get('VERIF_REPO', '/repo')


# ------------------------------------------------------------------ builtins overlay
class _FloatMeta(type):
    def __instancecheck__(cls, o):
        return isinstance(o, builtins.float) or (type(o) is SReal)

    def __subclasscheck__(cls, c):
        return issubclass(c, builtins.float) or c is SReal

    def __call__(cls, x=0.0):
        x = unwrap(x)
        if isinstance(x, SInt):
            return x._asreal()
        if isinstance(x, SReal):
            return x
        if isinstance(x, SBool):
            return x._r()
        return builtins.float(x)

    def __eq__(cls, o):
        return o is cls or o is builtins.float

    def __ne__(cls, o):
        return not (o is cls or o is builtins.float)

    def __hash__(cls):
        return hash(builtins.float)

    def __repr__(cls):
        return "<class 'float'>"


class sfloat(builtins.float, metaclass=_FloatMeta):
    pass


sfloat.__name__ = 'float'
sfloat.__qualname__ = 'float'


class _IntMeta(type):
    def __instancecheck__(cls, o):
        return isinstance(o, builtins.int) or isinstance(o, SInt)

    def __subclasscheck__(cls, c):
        return issubclass(c, builtins.int) or c is SInt

    def __call__(cls, x=0, *a):
        x = unwrap(x)
        if isinstance(x, SReal) and not a:
            return x.__int__()
        if isinstance(x, SBool) and not a:
            return SInt(z3.If(x.z, z3.IntVal(1), z3.IntVal(0)))
        return builtins.int(x, *a)

    def __eq__(cls, o):
        return o is cls or o is builtins.int

    def __ne__(cls, o):
        return not (o is cls or o is builtins.int)

    def __hash__(cls):
        return hash(builtins.int)

    def __repr__(cls):
        return "<class 'int'>"


class sint(builtins.int, metaclass=_IntMeta):
    pass


sint.__name__ = 'int'
sint.__qualname__ = 'int'


def _sround(x, nd=None):
    x = unwrap(x)
    if isinstance(x, SReal):
        return x.__round__(nd)
    return builtins.round(x) if nd is None else builtins.round(x, nd)


def _sym_import(name, globals=None, locals=None, fromlist=(), level=0):
    if level == 0:
        root = name.split('.')[0]
        if root == 'numpy':
            if name == 'numpy':
                return symnp
            if name == 'numpy.random':
                return symnp.random if fromlist else symnp
            return builtins.__import__(name, globals, locals, fromlist, level)
        if root == 'random':
            return symrandom
        if root == 'math' and name == 'math':
            return symmath
        if name == 'time' and globals is not None and globals.get('__name__') in TIME_SHIMMED:
            return symtime
        if name == 'importlib':
            return symimportlib
    return builtins.__import__(name, globals, locals, fromlist, level)


TIME_SHIMMED = {'mystic.termination'}

SYM_BUILTINS = dict(vars(builtins))
SYM_BUILTINS['float'] = sfloat
SYM_BUILTINS['int'] = sint
SYM_BUILTINS['round'] = _sround
SYM_BUILTINS['__import__'] = _sym_import


# ------------------------------------------------------------------ numpy shim
def _map_dtype(dt):
    if dt is None:
        return None
    if dt is sfloat or dt is builtins.float:
        return object
    if dt is sint or dt is builtins.int:
        return _np.dtype('int64')
    try:
        d = _np.dtype(dt)
    except TypeError:
        return object
    if d.kind in 'fc':
        return object
    return d


class SymArray(_np.ndarray):
    """object ndarray whose .astype(float/int) keeps symbolic scalars (numpy's own astype would call float() on them)"""

    def __array_wrap__(self, obj, context=None, return_scalar=False):
        # a plain object ndarray reduces to the contained scalar; a subclass would get a 0-d array back: keep numpy's base behaviour
        if isinstance(obj, _np.ndarray) and obj.ndim == 0:
            return obj[()]
        if isinstance(obj, _np.ndarray) and obj.dtype == object and not isinstance(obj, SymArray):
            return obj.view(SymArray)
        return obj

    def round(self, decimals=0, out=None):
        if self.dtype != object:
            return _np.ndarray.round(self.view(_np.ndarray), decimals)
        return _symview(_around(self, decimals))

    def astype(self, dtype, *a, **k):
        if self.dtype != object:
            return _np.ndarray.astype(self.view(_np.ndarray), dtype, *a, **k)
        dt = _map_dtype(dtype)
        if dt is object:
            out = _np.empty(self.shape, dtype=object).view(SymArray)
            fo, fi = out.reshape(-1), self.reshape(-1)
            for i in range(fi.size):
                v = fi[i]
                fo[i] = v if is_sym(v) else (builtins.float(v) if isinstance(v, (numbers.Real, _np.floating, _np.integer, _np.bool_)) else v)
            return out
        if isinstance(dt, _np.dtype) and dt.kind in 'iu':
            out = _np.empty(self.shape, dtype=object).view(SymArray)
            fo, fi = out.reshape(-1), self.reshape(-1)
            anysym = False
            for i in range(fi.size):
                v = fi[i]
                if is_sym(v):
                    anysym = True
                    fo[i] = v.__int__() if isinstance(v, SReal) else sint(v)
                else:
                    fo[i] = builtins.int(v)
            if not anysym:
                return _np.array(out.tolist(), dtype=dt).reshape(self.shape)
            return out
        if isinstance(dt, _np.dtype) and dt.kind == 'b':
            return _np.array([builtins.bool(v) for v in self.reshape(-1)], dtype=bool).reshape(self.shape)
        return _np.ndarray.astype(self.view(_np.ndarray), dtype, *a, **k)


def _symview(a):
    if isinstance(a, _np.ndarray) and a.dtype == object and not isinstance(a, SymArray):
        return a.view(SymArray)
    return a


def _objify(a, none_as_nan=False):
    """float ndarray -> object ndarray of python floats (so a symbolic scalar can be stored)"""
    if isinstance(a, _np.ndarray) and a.dtype.kind in 'fc':
        o = _np.empty(a.size, dtype=object)
        flat = a.ravel().tolist()
        for i, v in enumerate(flat):
            o[i] = v
        return o.reshape(a.shape).view(SymArray)
    if isinstance(a, _np.ndarray) and a.dtype == object:
        if none_as_nan:
            flat = a.reshape(-1)
            for i in range(flat.size):
                if flat[i] is None:
                    flat[i] = builtins.float('nan')
        return _symview(a)
    return a


def _has_sym(a):
    if is_sym(a):
        return True
    if isinstance(a, _np.ndarray):
        return a.dtype == object
    if isinstance(a, (list, tuple)):
        return any(_has_sym(x) for x in a)
    return False


class _SymNP(types.ModuleType):
    def __getattr__(self, n):
        return getattr(_np, n)


symnp = _SymNP('numpy')
for _k in dir(_np):
    if not _k.startswith('_'):
        try:
            setattr(symnp, _k, getattr(_np, _k))
        except Exception:
            pass
symnp.__all__ = [k for k in dir(_np) if not k.startswith('_')]
symnp.__version__ = _np.__version__
symnp.float = sfloat  # not in numpy 2, harmless


def _array(a, dtype=None, *args, **kw):
    dt = _map_dtype(dtype)
    r = _np.array(a, dtype=dt, *args, **kw)
    return _objify(r, none_as_nan=(dt is object and dtype is not None and dtype is not object))


def _asarray(a, dtype=None, *args, **kw):
    dt = _map_dtype(dtype)
    if isinstance(a, _np.ndarray) and a.dtype == object and (dt is None or dt is object):
        return _symview(a)
    r = _np.asarray(a, dtype=dt, *args, **kw)
    return _objify(r, none_as_nan=(dt is object and dtype is not None and dtype is not object))


def _asanyarray(a, dtype=None, *args, **kw):
    return _asarray(a, dtype, *args, **kw)


symnp.array = _array
symnp.asarray = _asarray
symnp.asanyarray = _asanyarray
symnp.ascontiguousarray = _asarray


def _wrap_symview(name):
    f = getattr(_np, name)

    def g(*a, **k):
        return _symview(f(*a, **k))
    g.__name__ = name
    return g


for _n in ('choose', 'where', 'take', 'clip', 'sort', 'concatenate', 'hstack', 'vstack', 'dot', 'outer', 'atleast_1d', 'ravel', 'reshape',
           'squeeze', 'cumsum', 'diff', 'copy', 'transpose', 'flip', 'roll', 'append', 'insert', 'delete', 'tile', 'repeat', 'select'):
    setattr(symnp, _n, _wrap_symview(_n))


def _mk_ctor(name):
    f = getattr(_np, name)

    def g(shape, dtype=builtins.float, *a, **kw):
        dt = _map_dtype(dtype)
        if dt is object:
            return _objify(f(shape, dtype=_np.float64, *a, **kw))
        return f(shape, dtype=dt, *a, **kw)
    g.__name__ = name
    return g


for _n in ('zeros', 'ones', 'empty'):
    setattr(symnp, _n, _mk_ctor(_n))


def _full(shape, fill_value, dtype=None, **kw):
    if is_sym(fill_value) or _map_dtype(dtype) is object or isinstance(fill_value, builtins.float):
        o = _np.empty(shape, dtype=object)
        o.fill(fill_value)
        return o
    return _np.full(shape, fill_value, dtype=dtype, **kw)


symnp.full = _full


def _eye(N, M=None, k=0, dtype=builtins.float, **kw):
    dt = _map_dtype(dtype)
    if dt is object:
        return _objify(_np.eye(N, M, k, **kw))
    return _np.eye(N, M, k, dtype=dt, **kw)


symnp.eye = _eye
symnp.identity = lambda n, dtype=builtins.float, **kw: _eye(n, dtype=dtype)


def _like(name):
    f = getattr(_np, name)

    def g(a, dtype=None, **kw):
        if dtype is None and isinstance(a, _np.ndarray) and a.dtype == object or _map_dtype(dtype) is object:
            base = {'zeros_like': 0.0, 'ones_like': 1.0, 'empty_like': 0.0}[name]
            o = _np.empty(_np.shape(a), dtype=object)
            o.fill(base)
            return o
        return _objify(f(a, dtype=_map_dtype(dtype), **kw))
    return g


for _n in ('zeros_like', 'ones_like', 'empty_like'):
    setattr(symnp, _n, _like(_n))


def _linspace(*a, **kw):
    return _objify(_np.linspace(*a, **kw))


symnp.linspace = _linspace


def _elementwise(name, fn_sym, out_bool=False):
    fn_conc = getattr(_np, name)

    def g(x, *a, **k):
        x0 = unwrap(x)
        if is_sym(x0):
            return fn_sym(x0)
        if isinstance(x0, (list, tuple)) and _has_sym(x0):
            x0 = _np.asarray(x0, dtype=object)
        if not (isinstance(x0, _np.ndarray) and x0.dtype == object):
            return fn_conc(x, *a, **k)
        out = _np.empty(x0.shape, dtype=bool if out_bool else object)
        flat_in = x0.ravel()
        flat_out = out.ravel()
        for i in range(flat_in.size):
            v = flat_in[i]
            if is_sym(v):
                flat_out[i] = fn_sym(v)
            else:
                r = fn_conc(v)
                flat_out[i] = bool(r) if out_bool else (builtins.float(r) if isinstance(r, _np.floating) else r)
        return _symview(flat_out.reshape(x0.shape))
    g.__name__ = name
    return g


def _sym_log(v):
    return _sym_unary('log', v)


def _sym_unary(kind, v):
    """log / exp of a symbolic real: uninterpreted, with the facts the properties use"""
    c = Ctx.cur
    f = z3.Function('__' + kind, z3.RealSort(), z3.RealSort())
    x = zr(v)
    if kind == 'log':
        if v <= 0:
            if v == 0:
                return -_math.inf
            return _math.nan
        y = f(x)
        c.assume(z3.And(z3.Implies(x == 1, y == 0), z3.Implies(x > 1, y > 0), z3.Implies(x < 1, y < 0)))
        return SReal(y)
    if kind == 'exp':
        y = f(x)
        c.assume(z3.And(y > 0, z3.Implies(x == 0, y == 1), z3.Implies(x > 0, y > 1), z3.Implies(x < 0, y < 1)))
        return SReal(y)
    raise Unsupported(kind)


def _sym_sign(v):
    z = zr(v)
    return SReal(z3.If(z > 0, z3.RealVal(1), z3.If(z < 0, z3.RealVal(-1), z3.RealVal(0))))


symnp.isinf = _elementwise('isinf', lambda v: False, True)
symnp.isnan = _elementwise('isnan', lambda v: False, True)
symnp.isfinite = _elementwise('isfinite', lambda v: True, True)
symnp.isneginf = _elementwise('isneginf', lambda v: False, True)
symnp.isposinf = _elementwise('isposinf', lambda v: False, True)
symnp.sqrt = _elementwise('sqrt', lambda v: (v._r() if isinstance(v, SBool) else v).sqrt())
symnp.log = _elementwise('log', lambda v: _sym_unary('log', v))
symnp.exp = _elementwise('exp', lambda v: _sym_unary('exp', v))
symnp.rint = _elementwise('rint', lambda v: v.rint())
symnp.floor = _elementwise('floor', lambda v: v.floor())
symnp.ceil = _elementwise('ceil', lambda v: v.ceil())
symnp.sign = _elementwise('sign', _sym_sign)
symnp.absolute = symnp.abs = symnp.fabs = _elementwise('absolute', lambda v: abs(v))
symnp.signbit = _elementwise('signbit', lambda v: v < 0, False)


def _around(a, decimals=0, out=None):
    a0 = unwrap(a)
    if is_sym(a0):
        r = _sround(a0, decimals)
        return r._asreal() if isinstance(r, SInt) else r
    if isinstance(a0, (list, tuple)) and _has_sym(a0):
        a0 = _np.asarray(a0, dtype=object)
    if isinstance(a0, _np.ndarray) and a0.dtype == object:
        o = _np.empty(a0.shape, dtype=object)
        fi, fo = a0.ravel(), o.ravel()
        for i in range(fi.size):
            v = fi[i]
            if is_sym(v):
                r = _sround(v, decimals)
                fo[i] = r._asreal() if isinstance(r, SInt) else r
            else:
                fo[i] = builtins.float(_np.round(v, decimals))
        return fo.reshape(a0.shape)
    return _np.round(a, decimals)


symnp.round = symnp.around = symnp.round_ = _around


def _isclose(a, b, rtol=1e-05, atol=1e-08, equal_nan=False):
    if not (_has_sym(a) or _has_sym(b) or is_sym(rtol) or is_sym(atol)):
        return _np.isclose(a, b, rtol, atol, equal_nan)
    A = _np.asarray(a, dtype=object)
    B = _np.asarray(b, dtype=object)
    bc = _np.broadcast(A, B)
    out = _np.empty(bc.shape, dtype=object)
    fo = out.ravel() if out.ndim else None
    res = []
    for (x, y) in bc:
        x, y = unwrap(x), unwrap(y)
        xinf = not is_sym(x) and _math.isinf(x)
        yinf = not is_sym(y) and _math.isinf(y)
        if xinf or yinf:
            res.append(bool(xinf and yinf and x == y))
        else:
            res.append(abs(x - y) <= atol + rtol * abs(y))
    if out.ndim == 0:
        return res[0]
    for i, r in enumerate(res):
        fo[i] = r
    return fo.reshape(bc.shape)


def _allclose(a, b, rtol=1e-05, atol=1e-08, equal_nan=False):
    r = _isclose(a, b, rtol, atol, equal_nan)
    if isinstance(r, _np.ndarray):
        return builtins.all(bool(v) for v in r.ravel())
    return bool(r)


symnp.isclose = _isclose
symnp.allclose = _allclose
symnp.seterr = _np.seterr


def _sum(a, axis=None, *args, **kw):
    # numpy refuses generators; forward unchanged so the real behaviour (TypeError) is kept
    return _np.sum(a, axis, *args, **kw)


symnp.random = types.ModuleType('numpy.random')
_npr = stubs.NPRandom(stubs.ORACLE, _np)
for _k in dir(_np.random):
    if not _k.startswith('_'):
        try:
            setattr(symnp.random, _k, getattr(_np.random, _k))
        except Exception:
            pass
for _k in ('rand', 'random', 'random_sample', 'ranf', 'sample', 'uniform', 'randint', 'choice', 'shuffle',
           'permutation', 'seed', 'get_state', 'set_state', 'normal', 'randn', 'standard_normal'):
    setattr(symnp.random, _k, getattr(_npr, _k))


# ------------------------------------------------------------------ random / math / time shims
import random as _random

symrandom = types.ModuleType('random')
for _k in dir(_random):
    if not _k.startswith('_'):
        setattr(symrandom, _k, getattr(_random, _k))
for _k in ('random', 'uniform', 'randrange', 'randint', 'choice', 'sample', 'shuffle', 'seed', 'getstate',
           'setstate', 'gauss', 'normalvariate'):
    setattr(symrandom, _k, getattr(stubs.ORACLE, _k))

symmath = types.ModuleType('math')
for _k in dir(_math):
    if not _k.startswith('_'):
        setattr(symmath, _k, getattr(_math, _k))


def _m1(name, sym):
    real = getattr(_math, name)

    def g(x, *a):
        x = unwrap(x)
        if is_sym(x):
            return sym(x, *a)
        return real(x, *a)
    g.__name__ = name
    return g


symmath.sqrt = _m1('sqrt', lambda v: v.sqrt())
symmath.fabs = _m1('fabs', lambda v: abs(v))
symmath.floor = _m1('floor', lambda v: v.__floor__())
symmath.ceil = _m1('ceil', lambda v: v.__ceil__())
symmath.trunc = _m1('trunc', lambda v: v.__trunc__())
symmath.isinf = _m1('isinf', lambda v: False)
symmath.isnan = _m1('isnan', lambda v: False)
symmath.isfinite = _m1('isfinite', lambda v: True)
symmath.log = _m1('log', lambda v: _sym_unary('log', v))
symmath.exp = _m1('exp', lambda v: _sym_unary('exp', v))
symmath.pow = lambda a, b: a ** b if (is_sym(a) or is_sym(b)) else _math.pow(a, b)

symtime = types.ModuleType('time')
import time as _time
for _k in dir(_time):
    if not _k.startswith('_'):
        setattr(symtime, _k, getattr(_time, _k))
symtime.time = stubs.CLOCK.time


symimportlib = types.ModuleType('importlib')
for _k in dir(importlib):
    if not _k.startswith('_'):
        setattr(symimportlib, _k, getattr(importlib, _k))


def _sym_import_module(name, package=None):
    if name == 'numpy':
        return symnp
    if name == 'numpy.random':
        return symnp.random
    if name == 'random':
        return symrandom
    if name == 'math':
        return symmath
    return importlib.import_module(name, package)


symimportlib.import_module = _sym_import_module


# ------------------------------------------------------------------ the loader
class _Loader(importlib.machinery.SourceFileLoader):
    def exec_module(self, module):
        code = self.source_to_code(self.get_data(self.path), self.path)
        module.__dict__['__builtins__'] = SYM_BUILTINS
        exec(code, module.__dict__)


class _Finder(importlib.abc.MetaPathFinder):
    def find_spec(self, fullname, path, target=None):
        if fullname != 'mystic' and not fullname.startswith('mystic.'):
            return None
        spec = importlib.machinery.PathFinder.find_spec(fullname, [REPO] if path is None else path)
        if spec is None or not isinstance(spec.loader, importlib.machinery.SourceFileLoader):
            return spec
        spec.loader = _Loader(spec.loader.name, spec.loader.path)
        return spec


_installed = False


def install():
    global _installed
    if _installed:
        return
    if 'mystic' in sys.modules:
        raise RuntimeError('mystic imported before the symbolic loader was installed')
    sys.dont_write_bytecode = True
    sys.meta_path.insert(0, _Finder())
    _installed = True


# ------------------------------------------------------------------ which /repo functions ran
_seen_code = set()


def trace_start():
    mon = sys.monitoring
    tid = mon.COVERAGE_ID
    try:
        mon.use_tool_id(tid, 'verif-symex')
    except ValueError:
        pass

    prefix = os.path.join(REPO, 'mystic') + os.sep

    def on_start(code, off):
        fn = code.co_filename
        if fn.startswith(prefix):
            _seen_code.add('%s:%s' % (fn[len(prefix):], code.co_qualname))
        return mon.DISABLE
    mon.register_callback(tid, mon.events.PY_START, on_start)
    mon.set_events(tid, mon.events.PY_START)


def traced_functions():
    return sorted(_seen_code)
