"""Path exploration: depth-first over decision prefixes by re-execution, obligations closed by z3.

explore_unit(instance, prefix, budget) explores the subtree under `prefix` until done or the
budget is used, and hands back unexplored prefixes so the driver can spread them over cores.
"""
import time
import traceback
import z3

from .values import Ctx, Abort, Unsupported, Budget, SReal, SBool, SInt, zb, zr, unwrap
from . import stubs
from . import poly


class Instance:
    """one bounded harness: fn(ctx) -> list of (name, obligation) ; meta = bounds etc."""

    def __init__(self, name, fn, bounds=None, qtimeout=20000, max_paths=200000, known=None, group=None,
                 expect_paths=1, context_free_first=False, selftest=False):
        self.name, self.fn = name, fn
        self.bounds = bounds or {}
        self.qtimeout = qtimeout
        self.max_paths = max_paths
        self.group = group or name.split('/')[0]
        self.expect_paths = expect_paths
        self.context_free_first = context_free_first
        self.selftest = selftest        # the concrete (replay-mode) run of this instance is itself a check: failing there is a harness error


def _model_values(ctx, m):
    vals = {}
    for n, v in ctx.inputs.items():
        try:
            e = m.eval(v, model_completion=True)
            vals[n] = _num(e)
        except Exception:
            pass
    tables = {}
    for n, uf in ctx.ufuncs.items():
        rows = {}
        for za, out in uf.apps:
            try:
                k = tuple(_num(m.eval(a, model_completion=True)) for a in za)
                v = [_num(m.eval(o, model_completion=True)) for o in out]
            except Exception:
                continue
            rows[k] = v
        tables[n] = {'table': [[list(k), v] for k, v in rows.items()], 'default': None}
    return vals, tables


def _num(e):
    if z3.is_true(e):
        return True
    if z3.is_false(e):
        return False
    if z3.is_int_value(e):
        return e.as_long()
    if z3.is_rational_value(e):
        return float(e.as_fraction())
    if z3.is_algebraic_value(e):
        a = e.approx(30)
        return float(a.as_fraction())
    s = z3.simplify(e)
    if z3.is_rational_value(s):
        return float(s.as_fraction())
    raise ValueError('not a value: %s' % e)


def _robust(f, eps):
    """strengthen a quantifier-free formula so that its real-valued comparisons hold with margin eps
    (used only to pick counterexample models that survive float rounding in replay)"""
    g = z3.Goal()
    g.add(f)
    f = z3.Tactic('nnf')(g).as_expr()
    e = z3.RealVal(eps)

    def is_real_cmp(a):
        return a.num_args() == 2 and a.arg(0).sort() == z3.RealSort()

    def walk(t):
        k = t.decl().kind()
        if k == z3.Z3_OP_AND:
            return z3.And(*[walk(c) for c in t.children()])
        if k == z3.Z3_OP_OR:
            return z3.Or(*[walk(c) for c in t.children()])
        if k == z3.Z3_OP_NOT:
            a = t.arg(0)
            ka = a.decl().kind()
            if is_real_cmp(a):
                x, y = a.arg(0), a.arg(1)
                if ka in (z3.Z3_OP_LE, z3.Z3_OP_LT):
                    return x >= y + e
                if ka in (z3.Z3_OP_GE, z3.Z3_OP_GT):
                    return x <= y - e
                if ka == z3.Z3_OP_EQ:
                    return z3.Or(x >= y + e, x <= y - e)
            return t
        if is_real_cmp(t):
            x, y = t.arg(0), t.arg(1)
            if k in (z3.Z3_OP_LE, z3.Z3_OP_LT):
                return x <= y - e
            if k in (z3.Z3_OP_GE, z3.Z3_OP_GT):
                return x >= y + e
        return t
    return walk(f)


def _robust_model(ctx, neg_ob):
    """a model of (pc and neg_ob) whose comparisons hold with a margin, if there is one"""
    try:
        pc = z3.And(*ctx.solver.assertions()) if len(ctx.solver.assertions()) else z3.BoolVal(True)
        for eps in (1e-3, 1e-6):
            s = z3.Solver()
            s.set('timeout', 5000)
            s.add(_robust(z3.And(pc, neg_ob), eps))
            if str(s.check()) == 'sat':
                return s.model()
    except Exception:
        pass
    return None


def explore_unit(inst, prefix, max_paths=400, max_seconds=30.0, want_witness=False):
    """returns a dict of statistics, failures, and leftover prefixes"""
    t0 = time.time()
    pending = [list(prefix)]
    out = dict(instance=inst.name, paths=0, aborted=0, obligations=0, discharged=0, decisions=0,
               checks=0, ztime=0.0, unknown_branches=0, failures=[], inconclusive=[], leftover=[],
               samples=[], witness=None, errors=[], ob_names={})
    while pending:
        if out['paths'] + out['aborted'] >= max_paths or time.time() - t0 > max_seconds:
            out['leftover'] = pending
            break
        pre = pending.pop()
        ctx = Ctx(preset=pre, pending=pending, qtimeout=inst.qtimeout)
        Ctx.cur = ctx
        Ctx.mode = 'sym'
        stubs.ORACLE.reset()
        stubs.CLOCK.reset()
        try:
            obs = inst.fn(ctx)
        except Abort:
            out['aborted'] += 1
            _acc(out, ctx)
            continue
        except (Unsupported, Budget) as e:
            tb = traceback.extract_tb(e.__traceback__)
            out['inconclusive'].append(dict(kind=type(e).__name__, msg=str(e)[:300], prefix=list(ctx.decisions),
                                            where=['%s:%d' % (f.filename.split('/')[-1], f.lineno) for f in tb[-4:]]))
            _acc(out, ctx)
            continue
        except Exception as e:
            tb = traceback.extract_tb(e.__traceback__)
            out['errors'].append(dict(kind=type(e).__name__, msg=str(e)[:300], prefix=list(ctx.decisions),
                                      where=['%s:%d' % (f.filename.split('/')[-1], f.lineno) for f in tb[-6:]]))
            _acc(out, ctx)
            continue
        # path feasibility at its end (assumptions added after the last branch may have killed it)
        r, m = ctx.sat()
        if r == 'unsat':
            out['aborted'] += 1
            _acc(out, ctx)
            continue
        out['paths'] += 1
        obs = [(n, zb(o)) for n, o in (obs or [])]
        all_names = [n for n, _ in obs]
        out['obligations'] += len(obs)
        for n, _ in obs:
            out['ob_names'][n] = out['ob_names'].get(n, 0) + 1
        if obs:
            # polynomial identities (textbook-definition obligations) are closed by normalisation, without the NRA procedure
            keep = []
            for n_, o in obs:
                try:
                    if poly.is_identity(o):
                        out['discharged'] += 1
                        out['identities'] = out.get('identities', 0) + 1
                        continue
                except Exception:
                    pass
                keep.append((n_, o))
            obs = keep
            if obs and getattr(inst, 'context_free_first', False):
                # nonlinear instances: canonical polynomial rebuild of pc and obligation in a one-shot solver (equal polynomials
                # become one term, so linear reasoning over shared monomials closes what nlsat's case analysis does not)
                keep = []
                cache, atoms = {}, {}
                try:
                    cpc = [poly.canon(a_, cache, atoms) for a_ in ctx.solver.assertions()]
                except Exception:
                    cpc = None
                for n_, o in obs:
                    r0 = 'unknown'
                    if cpc is not None:
                        try:
                            s0 = z3.Solver()
                            s0.set('timeout', 8000)
                            s0.add(cpc)
                            s0.add(z3.Not(poly.canon(o, cache, atoms)))
                            t0_ = time.time()
                            r0 = str(s0.check())
                            ctx.ztime += time.time() - t0_
                            ctx.checks += 1
                        except Exception:
                            r0 = 'unknown'
                    if r0 == 'unsat':
                        out['discharged'] += 1
                        out['canonical'] = out.get('canonical', 0) + 1
                    else:
                        keep.append((n_, o))
                obs = keep
        if obs:
            allr, _m = ctx.sat(z3.Not(z3.And(*[o for _, o in obs])))
            if allr == 'unsat':
                out['discharged'] += len(obs)
            else:
                for n, o in obs:
                    rr, mm = ctx.sat(z3.Not(o))
                    if rr == 'unsat':
                        out['discharged'] += 1
                    elif rr == 'sat':
                        mm = _robust_model(ctx, z3.Not(o)) or mm
                        vals, tables = _model_values(ctx, mm)
                        out['failures'].append(dict(instance=inst.name, obligation=n, prefix=list(ctx.decisions),
                                                    values=vals, tables=tables, notes=list(ctx.notes)))
                    else:
                        # last resort: canonical polynomial rebuild of pc and obligation (equal polynomials become one term)
                        r2 = 'unknown'
                        try:
                            cache, atoms = {}, {}
                            s2 = z3.Solver()
                            s2.set('timeout', int(inst.qtimeout))
                            for a_ in ctx.solver.assertions():
                                s2.add(poly.canon(a_, cache, atoms))
                            s2.add(z3.Not(poly.canon(o, cache, atoms)))
                            t2 = time.time()
                            r2 = str(s2.check())
                            ctx.ztime += time.time() - t2
                        except Exception:
                            r2 = 'unknown'
                        if r2 == 'unsat':
                            out['discharged'] += 1
                            out['canonical'] = out.get('canonical', 0) + 1
                        else:
                            out['inconclusive'].append(dict(kind='unknown', msg='obligation %s: solver unknown' % n,
                                                            prefix=list(ctx.decisions), where=[]))
        if len(out['samples']) < 2:
            out['samples'].append(dict(instance=inst.name, decisions=''.join('T' if d else 'F' for d in ctx.decisions)[:120],
                                       path_condition_conjuncts=ctx.npc,
                                       obligations=all_names[:12], notes=list(ctx.notes)[:6]))
        if want_witness and out['witness'] is None and r == 'sat' and m is not None:
            vals, tables = _model_values(ctx, m)
            observed = []
            for n, v in ctx.observed:
                try:
                    observed.append((n, _eval_obs(m, v)))
                except Exception:
                    observed.append((n, None))
            out['witness'] = dict(instance=inst.name, prefix=list(ctx.decisions), values=vals, tables=tables,
                                  observed=observed, obligations=all_names)
        _acc(out, ctx)
    out['wall'] = time.time() - t0
    Ctx.cur = None
    return out


def _eval_obs(m, v):
    v = unwrap(v)
    if isinstance(v, (list, tuple)) or hasattr(v, 'tolist'):
        return [_eval_obs(m, x) for x in (v.tolist() if hasattr(v, 'tolist') else v)]
    if isinstance(v, SBool):
        return bool(z3.is_true(m.eval(v.z, model_completion=True)))
    if isinstance(v, SReal):
        return _num(m.eval(v.zreal(), model_completion=True))
    if isinstance(v, (bool, int, str)) or v is None:
        return v
    return float(v)


def _acc(out, ctx):
    out['decisions'] += len(ctx.decisions)
    out['checks'] += ctx.checks
    out['ztime'] += ctx.ztime
    out['unknown_branches'] += ctx.unknown_branches
