"""Mode-polymorphic obligation builders.

A harness is written once.  In symbolic mode (exploration) these helpers build z3 terms from
SReal/SBool/concrete operands WITHOUT forking; in concrete mode (replay of a solver model against
the real, unhooked mystic with floats) they evaluate to CBool, a pair (strict, lenient) of truth
values under a relative tolerance, so that a replayed violation must survive rounding.
"""
import math
import numbers
import z3
from .values import SReal, SBool, SInt, Ctx, zr, zb, unwrap, _NonFinite, fval

RTOL = 1e-9


class CBool:
    """concrete truth value with tolerance: strict (robustly true) / lenient (true up to rounding)"""
    __slots__ = ('strict', 'lenient')

    def __init__(self, strict, lenient=None):
        self.strict = bool(strict)
        self.lenient = self.strict if lenient is None else bool(lenient)

    def __bool__(self):
        return self.lenient

    def __repr__(self):
        return 'CBool(%s,%s)' % (self.strict, self.lenient)


def _sym(*xs):
    for x in xs:
        x = unwrap(x)
        if isinstance(x, (SReal, SBool)) or z3.is_expr(x):
            return True
    return False


def _c(x):
    x = unwrap(x)
    if isinstance(x, CBool):
        return x
    return CBool(bool(x))


def _f(x):
    return float(unwrap(x))


def _tol(a, b):
    if math.isinf(a) or math.isinf(b):
        return 0.0
    return RTOL * (1.0 + abs(a) + abs(b))


def _zcmp(a, b, f, pinf, ninf):
    """z3 comparison with concrete infinities resolved"""
    try:
        za = zr(a)
    except _NonFinite as e:
        try:
            zr(b)
        except _NonFinite as e2:
            return z3.BoolVal(f(e.v, e2.v))
        return z3.BoolVal(f(e.v, 0.0))
    try:
        zbv = zr(b)
    except _NonFinite as e:
        return z3.BoolVal(f(0.0, e.v))
    return f(za, zbv)


def eq(a, b):
    if _sym(a, b):
        return SBool(_zcmp(a, b, lambda x, y: x == y, None, None))
    a, b = _f(a), _f(b)
    if math.isnan(a) or math.isnan(b):
        return CBool(False)
    return CBool(a == b, a == b or abs(a - b) <= _tol(a, b))


def ne(a, b):
    return Not(eq(a, b))


def le(a, b):
    if _sym(a, b):
        return SBool(_zcmp(a, b, lambda x, y: x <= y, None, None))
    a, b = _f(a), _f(b)
    if math.isnan(a) or math.isnan(b):
        return CBool(False)
    t = _tol(a, b)
    return CBool(a <= b - t or a == b, a <= b + t)


def lt(a, b):
    if _sym(a, b):
        return SBool(_zcmp(a, b, lambda x, y: x < y, None, None))
    a, b = _f(a), _f(b)
    if math.isnan(a) or math.isnan(b):
        return CBool(False)
    t = _tol(a, b)
    # exact float equality is read as "really equal" (the model said so): not less-than
    return CBool(a < b - t, a < b + t and a != b)


def ge(a, b): return le(b, a)
def gt(a, b): return lt(b, a)


def And(*xs):
    if len(xs) == 1 and isinstance(xs[0], (list, tuple)):
        xs = tuple(xs[0])
    if _sym(*xs):
        return SBool(z3.And(*[zb(x) for x in xs])) if xs else SBool(z3.BoolVal(True))
    cs = [_c(x) for x in xs]
    return CBool(all(c.strict for c in cs), all(c.lenient for c in cs))


def Or(*xs):
    if len(xs) == 1 and isinstance(xs[0], (list, tuple)):
        xs = tuple(xs[0])
    if _sym(*xs):
        return SBool(z3.Or(*[zb(x) for x in xs])) if xs else SBool(z3.BoolVal(False))
    cs = [_c(x) for x in xs]
    return CBool(any(c.strict for c in cs), any(c.lenient for c in cs))


def Not(x):
    if _sym(x):
        return SBool(z3.Not(zb(x)))
    c = _c(x)
    return CBool(not c.lenient, not c.strict)


def Implies(a, b):
    return Or(Not(a), b)


def Iff(a, b):
    if _sym(a, b):
        return SBool(zb(a) == zb(b))
    return And(Implies(a, b), Implies(b, a))


def const(v):
    """a python bool as an obligation value"""
    return SBool(z3.BoolVal(bool(v))) if Ctx.mode == 'sym' else CBool(bool(v))


def ite(c, a, b):
    if _sym(c, a, b):
        return SReal(z3.If(zb(c), zr(a), zr(b)))
    return a if _c(c).lenient else b


def absv(a):
    if _sym(a):
        z = zr(a)
        return SReal(z3.If(z >= 0, z, -z))
    return abs(_f(a))


def maxv(*xs):
    if len(xs) == 1 and isinstance(xs[0], (list, tuple)):
        xs = tuple(xs[0])
    if _sym(*xs):
        r = zr(xs[0])
        for x in xs[1:]:
            z = zr(x)
            r = z3.If(z > r, z, r)
        return SReal(r)
    return max(_f(x) for x in xs)


def minv(*xs):
    if len(xs) == 1 and isinstance(xs[0], (list, tuple)):
        xs = tuple(xs[0])
    if _sym(*xs):
        r = zr(xs[0])
        for x in xs[1:]:
            z = zr(x)
            r = z3.If(z < r, z, r)
        return SReal(r)
    return min(_f(x) for x in xs)


def sumv(xs):
    xs = list(xs)
    if _sym(*xs):
        return SReal(z3.Sum([zr(x) for x in xs])) if xs else SReal(z3.RealVal(0))
    return math.fsum(_f(x) for x in xs)


def R(x):
    """lift a scalar into the arithmetic domain of the current mode (SReal or float) so that
    oracle formulas written with + - * / work without forking"""
    x = unwrap(x)
    if isinstance(x, (SReal,)):
        return x
    if isinstance(x, SBool):
        return x._r()
    if Ctx.mode == 'sym':
        return SReal(fval(x))
    return float(x)


def veq(a, b):
    """element-wise equality of two equal-length vectors"""
    a, b = list(a), list(b)
    if len(a) != len(b):
        return const(False)
    return And(*[eq(x, y) for x, y in zip(a, b)]) if a else const(True)


def isfinite(x):
    x = unwrap(x)
    if isinstance(x, (SReal, SBool)):
        return True
    return not (math.isinf(float(x)) or math.isnan(float(x)))


def log(x):
    """the same (uninterpreted) log the numpy shim hands to the code under test"""
    x = unwrap(x)
    if isinstance(x, (SReal, SBool)):
        from . import loader
        return loader._sym_unary('log', x)
    return math.log(float(x))


def sqrt(x):
    x = unwrap(x)
    if isinstance(x, SReal):
        return x.sqrt()
    return math.sqrt(float(x))


def isinf(x):
    x = unwrap(x)
    if isinstance(x, (SReal, SBool)):
        return False
    try:
        return math.isinf(float(x))
    except (TypeError, ValueError):
        return False
