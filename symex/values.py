"""Symbolic scalar values over z3 and the per-path execution context.

SReal / SInt / SBool wrap z3 terms and flow through the *unmodified* mystic source (and through
numpy object arrays).  The only place a decision is forced is SBool.__bool__ -> Ctx.branch.
A path is re-executed from the start with a recorded decision prefix (see engine.py).
"""
import math
import numbers
import time
import z3

INF = float('inf')


class Abort(BaseException):
    """path infeasible / pruned (BaseException: mystic's `except Exception` must not swallow it)"""


class Unsupported(BaseException):
    """the engine cannot model this operation -> harness INCONCLUSIVE, never success"""


class Budget(BaseException):
    """per-path step budget exhausted"""


def fval(x):
    """exact z3 rational of a concrete python/numpy real"""
    if isinstance(x, (bool,)):
        return z3.RealVal(int(x))
    if isinstance(x, numbers.Integral):
        return z3.RealVal(int(x))
    x = float(x)
    if math.isinf(x) or math.isnan(x):
        raise _NonFinite(x)
    n, d = x.as_integer_ratio()
    return z3.RealVal(n) if d == 1 else z3.Q(n, d)


class _NonFinite(Exception):
    def __init__(self, v):
        self.v = v


def is_sym(x):
    return isinstance(x, (SReal, SBool))


def unwrap(x):
    """0-d numpy object arrays / numpy scalars -> python object"""
    if hasattr(x, 'dtype') and getattr(x, 'ndim', 1) == 0:
        return x.item()
    return x


def zr(x):
    """any scalar -> z3 Real term (raises _NonFinite for inf/nan)"""
    x = unwrap(x)
    if isinstance(x, SReal):
        return x.zreal()
    if isinstance(x, SBool):
        return z3.If(x.z, z3.RealVal(1), z3.RealVal(0))
    if z3.is_expr(x):
        return z3.ToReal(x) if x.sort() == z3.IntSort() else x
    return fval(x)


def zb(o):
    o = unwrap(o)
    if isinstance(o, SBool):
        return o.z
    if z3.is_expr(o):
        return o
    if isinstance(o, SReal):
        return o.zreal() != 0
    return z3.BoolVal(bool(o))


# --------------------------------------------------------------------------- context
class Ctx:
    cur = None
    mode = 'sym'

    def __init__(self, preset=(), pending=None, qtimeout=20000, max_decisions=4000):
        self.solver = z3.Solver()
        self.qtimeout = int(qtimeout)
        self.fallbacks = 0
        self.mixed_int = False      # rounding introduced Int variables: the incremental core times out on those, use one-shot queries
        self.solver.set('timeout', min(int(qtimeout), 4000))
        self.preset = list(preset)
        self.decisions = []
        self.pending = pending if pending is not None else []
        self.npc = 0
        self.nfresh = {}
        self.checks = 0
        self.ztime = 0.0
        self.unknown_branches = 0
        self.inputs = {}          # name -> z3 const (user-visible symbolic inputs + oracle draws)
        self.ufuncs = {}          # name -> UF
        self.max_decisions = max_decisions
        self.notes = []
        self.observed = []        # (name, value) pairs for witness cross-validation
        self._model = None        # a model of the current pc, if known

    # -- inputs
    def real(self, name):
        v = z3.Real(name)
        self.inputs[name] = v
        return SReal(v)

    def reals(self, name, n):
        return [self.real('%s%d' % (name, i)) for i in range(n)]

    def int(self, name, lo=None, hi=None):
        v = z3.Int(name)
        self.inputs[name] = v
        if lo is not None:
            self.assume(v >= lo)
        if hi is not None:
            self.assume(v <= hi)
        return SInt(v)

    def bool(self, name):
        v = z3.Bool(name)
        self.inputs[name] = v
        return SBool(v)

    def ufunc(self, name, arity, nout=None):
        if name not in self.ufuncs:
            self.ufuncs[name] = UF(self, name, arity, nout)
        return self.ufuncs[name]

    def fresh(self, pfx, sort='R', register=True):
        k = self.nfresh.get(pfx, 0)
        self.nfresh[pfx] = k + 1
        n = '%s!%d' % (pfx, k)
        v = z3.Real(n) if sort == 'R' else z3.Int(n) if sort == 'I' else z3.Bool(n)
        if register:
            self.inputs[n] = v
        return v

    def note(self, s):
        self.notes.append(s)

    def observe(self, name, value):
        self.observed.append((name, value))

    # -- solver
    def sat(self, *extra):
        self.checks += 1
        t = time.time()
        r = 'unknown'
        if not self.mixed_int:
            self.solver.push()
            try:
                for e in extra:
                    self.solver.add(e)
                r = str(self.solver.check())
                m = self.solver.model() if r == 'sat' else None
            finally:
                self.solver.pop()
        if r == 'unknown':
            # the incremental core gives up early on some mixed Int/Real (mod, to_int) and nonlinear queries that the
            # one-shot solver (with its preprocessing tactics) decides at once: retry there with the full budget
            s2 = z3.Solver()
            s2.set('timeout', int(self.qtimeout))
            s2.add(self.solver.assertions())
            for e in extra:
                s2.add(e)
            r = str(s2.check())
            m = s2.model() if r == 'sat' else None
            self.fallbacks += 1
        self.ztime += time.time() - t
        return r, m

    def assume(self, e):
        e = zb(e)
        self.solver.add(e)
        self.npc += 1
        if self._model is not None:
            try:
                if not z3.is_true(self._model.eval(e, model_completion=True)):
                    self._model = None
            except z3.Z3Exception:
                self._model = None

    def _take(self, cond, d):
        self.decisions.append(d)
        self.assume(cond if d else z3.Not(cond))
        return d

    def branch(self, cond):
        """decide a symbolic boolean on this path; returns a python bool"""
        cond = z3.simplify(cond)
        if z3.is_true(cond):
            return True
        if z3.is_false(cond):
            return False
        i = len(self.decisions)
        if i >= self.max_decisions:
            raise Budget('more than %d decisions on one path' % self.max_decisions)
        if i < len(self.preset):
            return self._take(cond, self.preset[i])
        # which sides are feasible?  use the cached model of the pc to save one query
        known = None
        if self._model is not None:
            try:
                v = self._model.eval(cond, model_completion=True)
                known = True if z3.is_true(v) else False if z3.is_false(v) else None
            except z3.Z3Exception:
                known = None
        model_keep = self._model
        if known is None:
            t, mt = self.sat(cond)
            if t == 'unsat':
                return self._take(cond, False)
            f, mf = self.sat(z3.Not(cond))
        elif known:
            t, mt = 'sat', model_keep
            f, mf = self.sat(z3.Not(cond))
        else:
            f, mf = 'sat', model_keep
            t, mt = self.sat(cond)
        if t == 'unknown' or f == 'unknown':
            # explore both sides: sound for "holds" verdicts (extra paths can only add spurious
            # counterexamples, which replay rejects); vacuity accounting notes it.
            self.unknown_branches += 1
            if t != 'unsat' and f != 'unsat':
                self.pending.append(self.decisions + [False])
                r = self._take(cond, True)
                self._model = mt
                return r
        if t == 'sat' or t == 'unknown':
            if f == 'sat' or f == 'unknown':
                self.pending.append(self.decisions + [False])
            r = self._take(cond, True)
            self._model = mt
            return r
        if f == 'sat':
            r = self._take(cond, False)
            self._model = mf
            return r
        raise Abort()

    def choose(self, n, name='ch'):
        """symbolic choice of an index in range(n) -> concrete int (multi-way fork on a named Int)"""
        if n <= 0:
            raise ValueError('empty range for choose()')
        v = self.fresh(name, 'I')
        self.assume(z3.And(v >= 0, v < n))
        for k in range(n - 1):
            if self.branch(v == k):
                return k
        return n - 1


class UF:
    """uninterpreted function R^arity -> R (or R^nout); logs every application for replay tables"""

    def __init__(self, ctx, name, arity, nout=None):
        self.ctx, self.name, self.arity, self.nout = ctx, name, arity, nout
        dom = [z3.RealSort()] * arity
        if nout is None:
            self.f = [z3.Function(name, *(dom + [z3.RealSort()]))]
        else:
            self.f = [z3.Function('%s.%d' % (name, j), *(dom + [z3.RealSort()])) for j in range(nout)]
        self.apps = []

    def __call__(self, *args):
        if len(args) == 1 and not _is_scalar(args[0]):
            args = list(args[0])
        if len(args) != self.arity:
            raise TypeError('%s expects %d args, got %d' % (self.name, self.arity, len(args)))
        za = [zr(a) for a in args]
        out = [f(*za) for f in self.f]
        self.apps.append((za, out))
        if self.nout is None:
            return SReal(out[0])
        return [SReal(o) for o in out]

    def z(self, *zargs):
        """apply to raw z3 terms (oracle side)"""
        zargs = [zr(a) for a in zargs]
        out = [f(*zargs) for f in self.f]
        self.apps.append((zargs, out))
        return out[0] if self.nout is None else out


def _is_scalar(x):
    x = unwrap(x)
    return isinstance(x, (SReal, SBool, numbers.Number)) or z3.is_expr(x)


# --------------------------------------------------------------------------- booleans
class SBool:
    __slots__ = ('z',)

    def __init__(self, z):
        self.z = z

    def __bool__(self):
        return Ctx.cur.branch(self.z)

    def __and__(self, o):
        return SBool(z3.And(self.z, zb(o)))
    __rand__ = __and__

    def __or__(self, o):
        return SBool(z3.Or(self.z, zb(o)))
    __ror__ = __or__

    def __xor__(self, o):
        return SBool(z3.Xor(self.z, zb(o)))
    __rxor__ = __xor__

    def __invert__(self):
        return SBool(z3.Not(self.z))

    def __eq__(self, o):
        o = unwrap(o)
        if isinstance(o, (SBool, bool)) or z3.is_expr(o):
            return SBool(self.z == zb(o))
        return self._r() == o

    def __ne__(self, o):
        o = unwrap(o)
        if isinstance(o, (SBool, bool)) or z3.is_expr(o):
            return SBool(self.z != zb(o))
        return self._r() != o

    def __hash__(self):
        return id(self)

    def _r(self):
        return SReal(z3.If(self.z, z3.RealVal(1), z3.RealVal(0)))

    def __mul__(self, o):
        return self._r() * o
    __rmul__ = __mul__

    def __add__(self, o):
        return self._r() + o
    __radd__ = __add__

    def __sub__(self, o):
        return self._r() - o

    def __rsub__(self, o):
        return o - self._r()

    def __pow__(self, n): return self._r() ** n
    def __neg__(self): return -self._r()
    def __abs__(self): return self._r()
    def __truediv__(self, o): return self._r() / o
    def __rtruediv__(self, o): return o / self._r()

    def __lt__(self, o): return self._r() < o
    def __le__(self, o): return self._r() <= o
    def __gt__(self, o): return self._r() > o
    def __ge__(self, o): return self._r() >= o

    def __float__(self):
        return float(bool(self))

    def __int__(self):
        return int(bool(self))

    def __index__(self):
        return int(bool(self))

    def __repr__(self):
        return 'SBool(%s)' % self.z

    def __deepcopy__(self, memo): return self
    def __copy__(self): return self
    def __reduce__(self): return (_unpickle, (_register(self),))


# --------------------------------------------------------------------------- reals
def _add(a, b): return a + b
def _sub(a, b): return a - b
def _mul(a, b): return a * b
def _div(a, b): return a / b


class SReal:
    __slots__ = ('z',)

    def __init__(self, z):
        self.z = z

    def zreal(self):
        return self.z

    # arithmetic ---------------------------------------------------------
    def _coerce(self, o):
        o = unwrap(o)
        if isinstance(o, SReal):
            return o.zreal()
        if isinstance(o, SBool):
            return zr(o)
        if isinstance(o, numbers.Real):
            return fval(o)
        return NotImplemented

    def _bin(self, o, f, rev=False):
        try:
            oz = self._coerce(o)
        except _NonFinite as e:
            return self._inf(e.v, f, rev)
        if oz is NotImplemented:
            return NotImplemented
        a, b = (oz, self.zreal()) if rev else (self.zreal(), oz)
        return SReal(z3.simplify(f(a, b)))

    def _inf(self, v, f, rev):
        if math.isnan(v):
            return v
        if f is _add:
            return v
        if f is _sub:
            return v if rev else -v
        if f is _mul:
            if self > 0:
                return v
            if self < 0:
                return -v
            return float('nan')
        if f is _div:
            if rev:
                if self > 0:
                    return v
                if self < 0:
                    return -v
                raise ZeroDivisionError('float division by zero')
            return 0.0
        raise Unsupported('op with inf')

    def __add__(self, o): return self._bin(o, _add)
    __radd__ = __add__
    def __sub__(self, o): return self._bin(o, _sub)
    def __rsub__(self, o): return self._bin(o, _sub, True)
    def __mul__(self, o): return self._bin(o, _mul)
    __rmul__ = __mul__

    def __truediv__(self, o):
        o = unwrap(o)
        if isinstance(o, (SReal, SBool)):
            if o == 0:
                raise ZeroDivisionError('float division by zero')
        elif isinstance(o, numbers.Real):
            if o == 0:
                raise ZeroDivisionError('float division by zero')
        return self._bin(o, _div)

    def __rtruediv__(self, o):
        if self == 0:
            raise ZeroDivisionError('float division by zero')
        return self._bin(o, _div, True)

    def __neg__(self): return SReal(-self.zreal())
    def __pos__(self): return self

    def __abs__(self):
        z = self.zreal()
        return SReal(z3.If(z >= 0, z, -z))

    def __pow__(self, n):
        n = unwrap(n)
        if isinstance(n, SInt):
            n = n.__index__()
        if isinstance(n, numbers.Real) and not isinstance(n, bool) and float(n) == int(n) and abs(n) <= 12:
            n = int(n)
            r = z3.RealVal(1)
            for _ in range(abs(n)):
                r = r * self.zreal()
            if n < 0:
                if self == 0:
                    raise ZeroDivisionError('0.0 cannot be raised to a negative power')
                r = 1 / r
            return SReal(r)
        if isinstance(n, numbers.Real) and float(n) == 0.5:
            return self.sqrt()
        if isinstance(n, numbers.Real) and 0 < float(n) < 1:
            q = round(1.0 / float(n))
            if 2 <= q <= 6 and abs(q * float(n) - 1.0) < 1e-12:
                return self.root(q)
        raise Unsupported('pow %r' % (n,))

    def root(self, q):
        """principal q-th root of a non-negative real: fresh r >= 0 with r**q == x"""
        if self < 0:
            raise ValueError('math domain error')
        c = Ctx.cur
        r = c.fresh('root%d' % q, register=False)
        p = r
        for _ in range(q - 1):
            p = p * r
        c.assume(z3.And(r >= 0, p == self.zreal()))
        return SReal(r)

    def __rpow__(self, b):
        raise Unsupported('symbolic exponent')

    def sqrt(self):
        if self < 0:
            raise ValueError('math domain error')
        c = Ctx.cur
        s = c.fresh('sqrt', register=False)
        c.assume(z3.And(s >= 0, s * s == self.zreal()))
        return SReal(s)

    # rounding -----------------------------------------------------------
    def _toint(self, kind):
        c = Ctx.cur
        c.mixed_int = True
        k = c.fresh(kind, 'I', register=False)
        x = self.zreal()
        kr = z3.ToReal(k)
        if kind == 'floor':
            c.assume(z3.And(kr <= x, x < kr + 1))
        elif kind == 'ceil':
            c.assume(z3.And(kr - 1 < x, x <= kr))
        elif kind == 'trunc':
            c.assume(z3.If(x >= 0, z3.And(kr <= x, x < kr + 1), z3.And(kr - 1 < x, x <= kr)))
        else:  # round half to even (python round(), numpy rint)
            half = z3.Q(1, 2)
            c.assume(z3.And(kr - half <= x, x <= kr + half,
                            z3.Implies(x == kr - half, k % 2 == 0),
                            z3.Implies(x == kr + half, k % 2 == 0)))
        return SInt(k)

    def __floor__(self): return self._toint('floor')
    def __ceil__(self): return self._toint('ceil')
    def __trunc__(self): return self._toint('trunc')

    def __round__(self, nd=None):
        if nd is None:
            return self._toint('round')
        nd = int(nd)
        p = 10 ** abs(nd)
        y = self * p if nd >= 0 else self / p
        k = y._toint('round')._asreal()
        return k / p if nd >= 0 else k * p

    def rint(self):
        return self._toint('round')._asreal()

    def floor(self):
        return self._toint('floor')._asreal()

    def ceil(self):
        return self._toint('ceil')._asreal()

    def __int__(self):
        return self._toint('trunc')

    def __float__(self):
        raise Unsupported('float() of a symbolic real at a C boundary')

    def __index__(self):
        raise TypeError("'float' object cannot be interpreted as an integer")

    # comparisons --------------------------------------------------------
    def _cmp(self, o, f, vs_posinf, vs_neginf):
        try:
            oz = self._coerce(o)
        except _NonFinite as e:
            if math.isnan(e.v):
                return f is _ne
            return vs_posinf if e.v > 0 else vs_neginf
        if oz is NotImplemented:
            return NotImplemented
        return SBool(f(self.zreal(), oz))

    def __lt__(self, o): return self._cmp(o, _lt, True, False)
    def __le__(self, o): return self._cmp(o, _le, True, False)
    def __gt__(self, o): return self._cmp(o, _gt, False, True)
    def __ge__(self, o): return self._cmp(o, _ge, False, True)
    def __eq__(self, o): return self._cmp(o, _eq, False, False)
    def __ne__(self, o): return self._cmp(o, _ne, True, True)

    def __hash__(self): return id(self)
    def __bool__(self): return bool(self != 0)

    def __repr__(self):
        if TOKEN_REPR:
            return _token(self)
        return 'SReal(%s)' % z3.simplify(self.zreal())
    __str__ = __repr__

    def __format__(self, spec):
        return repr(self)

    def __deepcopy__(self, memo): return self
    def __copy__(self): return self
    def __reduce__(self): return (_unpickle, (_register(self),))

    # numpy scalars answer these; mystic asks (`w.shape`, `x.ndim`) on reduction results
    shape = ()
    ndim = 0
    size = 1

    def tolist(self): return self

    def astype(self, t, *a, **k):
        """numpy scalars answer .astype(); mystic calls it on reduction results (d.max().astype(float))"""
        try:
            import numpy as _np
            kind = _np.dtype(t).kind if not isinstance(t, type) or t in (bool, int, float) else 'f'
        except TypeError:
            kind = 'f'
        if kind == 'b':
            return self != 0
        if kind in 'iu':
            return self.__int__()
        return self

    def max(self, *a, **k): return self
    def min(self, *a, **k): return self
    def sum(self, *a, **k): return self

    # numpy asks objects for these in object-dtype loops
    def conjugate(self): return self
    @property
    def real(self): return self
    @property
    def imag(self): return 0.0
    def item(self): return self
    def is_integer(self): raise Unsupported('is_integer on symbolic')


def _lt(a, b): return a < b
def _le(a, b): return a <= b
def _gt(a, b): return a > b
def _ge(a, b): return a >= b
def _eq(a, b): return a == b
def _ne(a, b): return a != b


class SInt(SReal):
    """z3 Int.  Arithmetic with ints stays Int; with reals promotes to SReal."""
    __slots__ = ()

    def zreal(self):
        return z3.ToReal(self.z)

    def _asreal(self):
        return SReal(z3.ToReal(self.z))

    def _icoerce(self, o):
        o = unwrap(o)
        if isinstance(o, SInt):
            return o.z
        if isinstance(o, bool):
            return z3.IntVal(int(o))
        if isinstance(o, numbers.Integral):
            return z3.IntVal(int(o))
        return None

    def _ibin(self, o, f, rev, fallback):
        oz = self._icoerce(o)
        if oz is None:
            return fallback(o)
        a, b = (oz, self.z) if rev else (self.z, oz)
        return SInt(z3.simplify(f(a, b)))

    def __add__(self, o): return self._ibin(o, _add, False, lambda o: SReal.__add__(self, o))
    __radd__ = __add__
    def __sub__(self, o): return self._ibin(o, _sub, False, lambda o: SReal.__sub__(self, o))
    def __rsub__(self, o): return self._ibin(o, _sub, True, lambda o: SReal.__rsub__(self, o))
    def __mul__(self, o): return self._ibin(o, _mul, False, lambda o: SReal.__mul__(self, o))
    __rmul__ = __mul__
    def __neg__(self): return SInt(-self.z)

    def __abs__(self):
        return SInt(z3.If(self.z >= 0, self.z, -self.z))

    def __floordiv__(self, o):
        oz = self._icoerce(o)
        if oz is None:
            raise Unsupported('int // real')
        if SInt(oz) == 0 if not z3.is_int_value(oz) else oz.as_long() == 0:
            raise ZeroDivisionError('integer division or modulo by zero')
        return SInt(_pyfloordiv(self.z, oz))

    def __mod__(self, o):
        oz = self._icoerce(o)
        if oz is None:
            raise Unsupported('int % real')
        if SInt(oz) == 0 if not z3.is_int_value(oz) else oz.as_long() == 0:
            raise ZeroDivisionError('integer division or modulo by zero')
        return SInt(self.z - oz * _pyfloordiv(self.z, oz))

    def _icmp(self, o, f, real):
        oz = self._icoerce(o)
        if oz is None:
            return real(o)
        return SBool(f(self.z, oz))

    def __lt__(self, o): return self._icmp(o, _lt, lambda o: SReal.__lt__(self, o))
    def __le__(self, o): return self._icmp(o, _le, lambda o: SReal.__le__(self, o))
    def __gt__(self, o): return self._icmp(o, _gt, lambda o: SReal.__gt__(self, o))
    def __ge__(self, o): return self._icmp(o, _ge, lambda o: SReal.__ge__(self, o))
    def __eq__(self, o): return self._icmp(o, _eq, lambda o: SReal.__eq__(self, o))
    def __ne__(self, o): return self._icmp(o, _ne, lambda o: SReal.__ne__(self, o))
    def __hash__(self): return id(self)

    def __int__(self): return self
    def __floor__(self): return self
    def __ceil__(self): return self
    def __trunc__(self): return self
    def __round__(self, nd=None): return self
    def rint(self): return self
    def floor(self): return self
    def ceil(self): return self

    def __index__(self):
        return self.concretize()

    def concretize(self, lo=-64, hi=4096):
        """fork over the feasible values (bounded search window)"""
        c = Ctx.cur
        v = z3.simplify(self.z)
        if z3.is_int_value(v):
            return v.as_long()
        # pick feasible values one at a time
        tried = 0
        while True:
            r, m = c.sat()
            if r != 'sat':
                raise Unsupported('concretize: pc %s' % r)
            k = m.eval(self.z, model_completion=True).as_long()
            tried += 1
            if tried > 64:
                raise Unsupported('concretize: more than 64 feasible values')
            if c.branch(self.z == k):
                return k

    def __repr__(self):
        if TOKEN_REPR:
            return _token(self)
        return 'SInt(%s)' % z3.simplify(self.z)
    __str__ = __repr__


def _pyfloordiv(a, b):
    # z3 Int div rounds so that remainder is >= 0; python floors.
    q = a / b
    return z3.If(b > 0, q, z3.If(a - b * q == 0, q, q - 1))


# --------------------------------------------------------------------------- pickling (dill / deepcopy)
_registry = {}


def _register(v):
    k = 'S%d' % id(v)
    _registry[k] = v
    return k


def _unpickle(k):
    return _registry[k]


# Text round trips (C20: LoggingMonitor / munge readers): with TOKEN_REPR on, a symbolic scalar prints as a Python expression
# that evaluates (eval / exec / import of the written file) back to the very same object.  The decimal formatting of floats is
# thereby OUTSIDE what such a harness decides; which fields are written, where, and how they are parsed back is inside.
TOKEN_REPR = False


def _token(v):
    return "__import__('symex.values').values._unpickle('%s')" % _register(v)


def sreal_const(x):
    return SReal(fval(x))
