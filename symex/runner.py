"""CLI driver:  python -m symex.runner <ID> --tier quick|thorough   |   --replay <file>

Exit codes: 0 property held on everything explored (KNOWN-FINDING lines allowed) ·
1 VIOLATION (counterexample replayed on the real, unhooked code) · 2 inconclusive ·
3 harness error (counterexample that does not reproduce, unexpected exception, vacuous harness).
"""
import argparse
import fnmatch
import importlib
import json
import multiprocessing as mp
import os
import subprocess
import sys
import time

VERIF = os.path.dirname(os.path.dirname(os.path.abspath(__file__)))
REPO = os.environ.get('VERIF_REPO', '/repo')


# --------------------------------------------------------------------------- worker side
_MOD = None
_INSTS = None


def _load(pid, tier, seed, symbolic=True):
    global _MOD, _INSTS
    if symbolic:
        from . import loader
        loader.install()
        loader.trace_start()
    if REPO not in sys.path:
        sys.path.insert(0, REPO)
    if VERIF not in sys.path:
        sys.path.insert(0, VERIF)
    _MOD = importlib.import_module('harness.%s' % pid.lower())
    insts = _MOD.instances(tier, seed)
    _INSTS = {i.name: i for i in insts}
    return _MOD, insts


def _work(task):
    from . import engine, loader
    name, prefix, max_paths, max_seconds, want_witness = task
    inst = _INSTS[name]
    try:
        out = engine.explore_unit(inst, prefix, max_paths, max_seconds, want_witness)
    except BaseException as e:  # engine bug: report, do not hang the pool
        import traceback
        out = dict(instance=name, paths=0, aborted=0, obligations=0, discharged=0, decisions=0, checks=0,
                   ztime=0.0, unknown_branches=0, failures=[], inconclusive=[], leftover=[], samples=[],
                   witness=None, ob_names={}, wall=0.0,
                   errors=[dict(kind='ENGINE:' + type(e).__name__, msg=str(e)[:300], prefix=list(prefix),
                                where=traceback.format_exc().splitlines()[-8:])])
    out['functions'] = loader.traced_functions()
    return out


# --------------------------------------------------------------------------- known findings
def load_known(pid):
    known = []
    p = os.path.join(VERIF, 'known_findings.txt')
    if os.path.exists(p):
        for line in open(p):
            line = line.strip()
            if not line.startswith('known:'):
                continue
            head, _, desc = line[len('known:'):].partition('::')
            kv = dict(t.split('=', 1) for t in head.split())
            if kv.get('property') == pid:
                known.append((kv.get('instance', '*'), kv.get('obligation', '*'), desc.strip()))
    return known


def match_known(known, inst, obl):
    for ipat, opat, desc in known:
        if fnmatch.fnmatchcase(inst, ipat) and fnmatch.fnmatchcase(obl, opat):
            return desc
    return None


# --------------------------------------------------------------------------- concrete replay
def run_concrete(pid, tier, seed, rec):
    """run one instance concretely with the model's values; returns dict(name -> (strict, lenient))"""
    from .conc import ConcCtx, AssumptionFailed
    from .values import Ctx
    from . import stubs
    from .ob import CBool
    inst = _INSTS[rec['instance']]
    tables = {}
    for n, t in rec.get('tables', {}).items():
        tables[n] = dict(table=[(tuple(k), v) for k, v in t['table']], default=t.get('default'))
    ctx = ConcCtx(rec.get('values', {}), tables)
    Ctx.cur = ctx
    Ctx.mode = 'conc'
    stubs.ORACLE.reset()
    stubs.CLOCK.reset()
    res = dict(instance=rec['instance'], ok=True, obligations={}, observed=[], error=None, uf_misses=0)
    try:
        obs = inst.fn(ctx)
        for n, o in obs or []:
            if not isinstance(o, CBool):
                o = CBool(bool(o))
            prev = res['obligations'].get(n)
            cur = (o.strict, o.lenient)
            res['obligations'][n] = cur if prev is None else (prev[0] and cur[0], prev[1] and cur[1])
        res['observed'] = [(n, _plain(v)) for n, v in ctx.observed]
    except AssumptionFailed:
        res['ok'] = False
        res['error'] = 'assumption failed under floats'
    except Exception as e:
        import traceback
        res['ok'] = False
        res['error'] = '%s: %s | %s' % (type(e).__name__, str(e)[:200], ' <- '.join(traceback.format_exc().splitlines()[-6:]))
    res['uf_misses'] = sum(u.misses for u in ctx.ufuncs.values())
    res['missing'] = ctx.missing[:10]
    return res


def _plain(v):
    if hasattr(v, 'tolist'):
        v = v.tolist()
    if isinstance(v, (list, tuple)):
        return [_plain(x) for x in v]
    if isinstance(v, (bool, int, str)) or v is None:
        return v
    try:
        return float(v)
    except Exception:
        return repr(v)


def concrete_main(args):
    """subprocess entry: plain interpreter, real mystic, real numpy, floats"""
    recs = json.load(open(args.concrete))
    pid, tier, seed = recs['property'], recs['tier'], recs['seed']
    from . import stubs
    _load(pid, tier, seed, symbolic=False)
    stubs.install_concrete()
    out = [run_concrete(pid, tier, seed, r) for r in recs['records']]
    json.dump(out, sys.stdout)
    return 0


def spawn_concrete(pid, tier, seed, records, timeout=900):
    import tempfile
    d = tempfile.mkdtemp(prefix='verif-conc-')
    try:
        p = os.path.join(d, 'in.json')
        json.dump(dict(property=pid, tier=tier, seed=seed, records=records), open(p, 'w'))
        env = dict(os.environ)
        env['PYTHONPATH'] = VERIF + os.pathsep + REPO
        env['PYTHONDONTWRITEBYTECODE'] = '1'
        r = subprocess.run([sys.executable, '-m', 'symex.runner', '--concrete', p], cwd=VERIF, env=env,
                           capture_output=True, text=True, timeout=timeout)
        if r.returncode != 0:
            return None, (r.stderr or r.stdout)[-2000:]
        txt = r.stdout
        i = txt.rfind('\n[')
        js = txt[i + 1:] if i >= 0 and not txt.startswith('[') else txt
        try:
            return json.loads(js), None
        except Exception:
            # tolerate prints from mystic before the JSON
            k = txt.find('[{')
            return json.loads(txt[k:]), None
    finally:
        import shutil
        shutil.rmtree(d, ignore_errors=True)


def _close(a, b):
    if isinstance(a, (list, tuple)) and isinstance(b, (list, tuple)):
        return len(a) == len(b) and all(_close(x, y) for x, y in zip(a, b))
    if a is None or b is None:
        return True
    if isinstance(a, (bool, str)) or isinstance(b, (bool, str)):
        return a == b
    try:
        a, b = float(a), float(b)
    except Exception:
        return a == b
    if a == b:
        return True
    return abs(a - b) <= 1e-6 * (1 + abs(a) + abs(b))


# --------------------------------------------------------------------------- process farm
class _Farm:
    """N forked workers on pipes; a worker that dies or overruns its hard limit is replaced and
    the task retried once, then reported lost (-> INCONCLUSIVE, never success)."""

    def __init__(self, n):
        self.ctx = mp.get_context('fork')
        self.n = n
        self.workers = []

    def _spawn(self):
        pc, cc = self.ctx.Pipe()
        p = self.ctx.Process(target=_farm_worker, args=(cc,), daemon=True)
        p.start()
        cc.close()
        return dict(proc=p, conn=pc, task=None, t0=None)

    def run(self, queue, on_result, outstanding, lost, deadline, hard_limit):
        from multiprocessing.connection import wait
        queue = list(queue)
        retried = set()
        self.workers = [self._spawn() for _ in range(min(self.n, max(1, len(queue))))]
        while queue or any(w['task'] is not None for w in self.workers):
            if time.time() > deadline:
                return True
            for w in self.workers:
                if w['task'] is None and queue:
                    t = queue.pop(0)
                    try:
                        w['conn'].send(t)
                        w['task'], w['t0'] = t, time.time()
                    except (BrokenPipeError, OSError):
                        queue.insert(0, t)
                        self._replace(w)
            busy = [w for w in self.workers if w['task'] is not None]
            ready = wait([w['conn'] for w in busy], timeout=0.5) if busy else []
            for w in busy:
                if w['conn'] in ready:
                    try:
                        out = w['conn'].recv()
                    except (EOFError, OSError):
                        self._fail(w, queue, retried, lost, outstanding, 'worker died')
                        continue
                    t = w['task']
                    w['task'] = None
                    new = on_result(out)
                    outstanding[t[0]] -= 1
                    for nt in new:
                        outstanding[nt[0]] += 1
                        queue.append(nt)
                elif not w['proc'].is_alive():
                    self._fail(w, queue, retried, lost, outstanding, 'worker died')
                elif time.time() - w['t0'] > hard_limit(w['task']):
                    self._fail(w, queue, retried, lost, outstanding, 'worker overran its hard time limit')
            if len(self.workers) < self.n and len(queue) > 0:
                self.workers.append(self._spawn())
        return False

    def _replace(self, w):
        try:
            w['proc'].kill()
            w['proc'].join(1)
            w['conn'].close()
        except Exception:
            pass
        nw = self._spawn()
        w.update(nw)

    def _fail(self, w, queue, retried, lost, outstanding, why):
        t = w['task']
        key = (t[0], tuple(t[1]))
        self._replace(w)
        if key in retried:
            lost.append((t, why))
            outstanding[t[0]] -= 1
        else:
            retried.add(key)
            queue.append(t)

    def close(self):
        for w in self.workers:
            try:
                w['proc'].kill()
                w['proc'].join(1)
                w['conn'].close()
            except Exception:
                pass


def _farm_worker(conn):
    while True:
        try:
            t = conn.recv()
        except (EOFError, OSError):
            return
        out = _work(t)
        try:
            conn.send(out)
        except Exception as e:
            out2 = dict(out)
            out2['failures'] = []
            out2['witness'] = None
            out2['errors'] = out2['errors'] + [dict(kind='ENGINE:send', msg=str(e)[:200], prefix=[], where=[])]
            conn.send(out2)


# --------------------------------------------------------------------------- main check
def check_main(args):
    pid = args.property.upper()
    tier = args.tier or os.environ.get('VERIF_TIER') or 'quick'
    seed = int(os.environ.get('VERIF_SEED', '0') or 0)
    t0 = time.time()
    mod, insts = _load(pid, tier, seed, symbolic=True)
    if args.instances:
        insts = [i for i in insts if fnmatch.fnmatchcase(i.name, args.instances)]
    budget = getattr(mod, 'BUDGET', {}).get(tier, 600 if tier == 'quick' else 5400)
    if args.budget:
        budget = args.budget
    jobs = args.jobs or min(16, os.cpu_count() or 4)
    known = load_known(pid)

    agg = {}
    for i in insts:
        agg[i.name] = dict(paths=0, aborted=0, obligations=0, discharged=0, decisions=0, checks=0, ztime=0.0,
                           unknown_branches=0, failures=[], inconclusive=[], errors=[], samples=[], witness=None,
                           done=False, ob_names={})
    functions = set()
    outstanding = {i.name: 0 for i in insts}
    timed_out = False
    lost = []

    def on_result(out):
        a = agg[out['instance']]
        for f in ('paths', 'aborted', 'obligations', 'discharged', 'decisions', 'checks', 'ztime',
                  'unknown_branches'):
            a[f] += out[f]
        for n, c in out['ob_names'].items():
            a['ob_names'][n] = a['ob_names'].get(n, 0) + c
        a['identities'] = a.get('identities', 0) + out.get('identities', 0)
        a['canonical'] = a.get('canonical', 0) + out.get('canonical', 0)
        a['failures'] += out['failures'][:20]
        a['inconclusive'] += out['inconclusive'][:20]
        a['errors'] += out['errors'][:20]
        if len(a['samples']) < 2:
            a['samples'] += out['samples'][:1]
        if a['witness'] is None and out.get('witness'):
            a['witness'] = out['witness']
        functions.update(out.get('functions', ()))
        inst = _INSTS[out['instance']]
        if a['paths'] + a['aborted'] > inst.max_paths:
            a['inconclusive'].append(dict(kind='PathBudget', msg='more than %d paths' % inst.max_paths,
                                          prefix=[], where=[]))
            return []
        # leftovers become separate tasks so idle cores pick them up
        return [(out['instance'], pre, 300, 20.0, False) for pre in out['leftover']]

    queue = [(i.name, [], 200, 15.0, True) for i in insts]
    for t in queue:
        outstanding[t[0]] += 1
    farm = _Farm(jobs)
    try:
        timed_out = farm.run(queue, on_result, outstanding, lost, t0 + budget,
                             lambda t: 3 * t[3] + 4 * (_INSTS[t[0]].qtimeout / 1000.0) + 60)
    finally:
        farm.close()
    for t, why in lost:
        agg[t[0]]['inconclusive'].append(dict(kind='WorkerLost', msg=why, prefix=t[1], where=[]))

    for n, a in agg.items():
        a['done'] = (outstanding[n] == 0) and not any(t[0] == n for t, _ in lost)

    wall_explore = time.time() - t0
    # ---------------- classify
    status = 0
    lines = []
    harness_errors = []
    inconclusive = []
    for n, a in agg.items():
        for e in a['errors']:
            harness_errors.append('%s: %s %s @ %s' % (n, e['kind'], e['msg'], ' <- '.join(e['where'][-3:])))
        for e in a['inconclusive']:
            inconclusive.append('%s: %s %s @ %s' % (n, e['kind'], e['msg'], ' <- '.join(e.get('where', [])[-3:])))
        if not a['done']:
            inconclusive.append('%s: exploration not finished within the %ds wall budget' % (n, budget))
        elif a['paths'] == 0 and not a['errors'] and not a['inconclusive']:
            harness_errors.append('%s: vacuous harness (no feasible completed path)' % n)

    # ---------------- replay failures
    violations = []
    known_hits = []
    unreproduced = []
    fail_groups = {}
    for n, a in agg.items():
        for f in a['failures']:
            fail_groups.setdefault((f['instance'], f['obligation']), []).append(f)
    nrep = 0
    os.makedirs(os.path.join(VERIF, 'replays'), exist_ok=True)
    if fail_groups:
        records, index = [], []
        for key, fl in sorted(fail_groups.items()):
            for f in fl[:3]:
                records.append(dict(instance=f['instance'], values=f['values'], tables=f['tables']))
                index.append((key, f))
        res, err = spawn_concrete(pid, tier, seed, records)
        if res is None:
            harness_errors.append('replay subprocess failed: %s' % err)
        else:
            confirmed = {}
            for (key, f), r in zip(index, res):
                if key in confirmed:
                    continue
                ob = r['obligations'].get(key[1])
                if r['ok'] and ob is not None and ob[1] is False:
                    confirmed[key] = (f, r)
            for key in sorted(fail_groups):
                inst_name, obl = key
                if key in confirmed:
                    f, r = confirmed[key]
                    nrep += 1
                    desc = match_known(known, inst_name, obl)
                    path = os.path.join(VERIF, 'replays', '%s-%s.json' % (pid, _slug(inst_name + '-' + obl)))
                    json.dump(dict(property=pid, tier=tier, seed=seed, instance=inst_name, obligation=obl,
                                   values=f['values'], tables=f['tables'], decisions=f['prefix'],
                                   notes=f.get('notes', []), concrete_result=r), open(path, 'w'), indent=1)
                    if desc is not None:
                        known_hits.append((inst_name, obl, desc))
                    else:
                        violations.append((inst_name, obl, path))
                else:
                    why = [r.get('error') or r['obligations'].get(key[1]) for (k, f), r in zip(index, res) if k == key]
                    unreproduced.append('%s / %s: solver counterexample did not reproduce on floats (%s)' % (inst_name, obl, why[:2]))

    # ---------------- witness validation (symbolic path vs real implementation on a concrete trace)
    wit_ok = wit_bad = 0
    wit_notes = []
    if not args.no_witness:
        wrecs = [a['witness'] for a in agg.values() if a['witness']]
        if wrecs:
            res, err = spawn_concrete(pid, tier, seed, [dict(instance=w['instance'], values=w['values'], tables=w['tables']) for w in wrecs])
            if res is None:
                wit_notes.append('witness subprocess failed: %s' % (err or '')[-300:])
            else:
                for w, r in zip(wrecs, res):
                    if not r['ok']:
                        wit_bad += 1
                        wit_notes.append('%s: %s' % (w['instance'], r['error']))
                        if getattr(_INSTS[w['instance']], 'selftest', False):
                            harness_errors.append('%s: self-test could not run concretely: %s' % (w['instance'], r['error']))
                        continue
                    failing = [n for n, (s, l) in r['obligations'].items() if not l]
                    same_obs = _close([v for _, v in w['observed']], [v for _, v in r['observed']])
                    if failing and (w['instance'], failing[0]) not in fail_groups:
                        wit_bad += 1
                        wit_notes.append('%s: obligations %s fail concretely on a path the solver closed' % (w['instance'], failing[:3]))
                        if getattr(_INSTS[w['instance']], 'selftest', False):
                            harness_errors.append('%s: self-test failed in the concrete run: %s' % (w['instance'], failing[:3]))
                    elif not same_obs:
                        wit_bad += 1
                        wit_notes.append('%s: observed outputs differ: sym %s vs real %s' % (w['instance'], str(w['observed'])[:200], str(r['observed'])[:200]))
                    else:
                        wit_ok += 1

    by_desc = {}
    for inst_name, obl, desc in known_hits:
        by_desc.setdefault(desc, []).append(inst_name)
    for desc, where in by_desc.items():
        lines.append('KNOWN-FINDING: property=%s %s [reproduced in %d instance(s), e.g. %s]' % (pid, desc, len(where), where[0]))
    for inst_name, obl, path in violations:
        lines.append('VIOLATION property=%s replay=%s' % (pid, path))
        lines.append('  instance=%s obligation=%s' % (inst_name, obl))
    if violations:
        status = 1
    elif unreproduced or harness_errors:
        status = 3
    elif inconclusive:
        status = 2

    # ---------------- evidence
    tot = lambda k: sum(a[k] for a in agg.values())
    samples = []
    for n, a in list(agg.items()):
        samples += a['samples'][:1]
        if len(samples) >= 6:
            break
    level = getattr(mod, 'LEVEL', 'model_checking')
    cov = dict(
        states=tot('paths'), transitions=tot('decisions'), traces_validated_against_impl=wit_ok,
        samples=samples or [dict(note='no path completed')],
        obligations=tot('obligations'), discharged=tot('discharged'),
        instances=len(agg), instances_completed=sum(1 for a in agg.values() if a['done']),
        infeasible_paths_pruned=tot('aborted'), solver_queries=tot('checks'), solver_seconds=round(tot('ztime'), 2),
        unknown_branches=tot('unknown_branches'),
        obligations_closed_by_polynomial_normalisation=sum(a.get('identities', 0) for a in agg.values()),
        obligations_closed_by_canonical_one_shot_query=sum(a.get('canonical', 0) for a in agg.values()),
        exhaustive=bool(all(a['done'] for a in agg.values()) and not inconclusive),
        bounds=getattr(mod, 'BOUNDS', {}).get(tier, getattr(mod, 'BOUNDS', {})) if isinstance(getattr(mod, 'BOUNDS', {}), dict) else {},
        functions_encoded=sorted(functions)[:400],
        obligation_kinds=_merge_names(agg),
        counterexamples_replayed=nrep, known_findings=[dict(instance=i, obligation=o, what=d) for i, o, d in known_hits],
        witness_mismatches=wit_notes[:10],
        inconclusive=inconclusive[:20], harness_errors=(harness_errors + unreproduced)[:20],
        explanation=getattr(mod, 'EXPLANATION', 'symbolic execution of the real mystic source (z3); every path closed by the solver'),
        engine='symex (fork-on-bool symbolic execution of unmodified source; z3 %s)' % _z3v(),
        repo=REPO,
    )
    if level == 'translation_validation':
        cov['programs'] = getattr(mod, 'programs_count', lambda a: len(a))(agg)
        cov['disagreements_checked'] = nrep + len(unreproduced)
    ev = dict(property_id=pid, tier=tier, seed=seed, level=level, coverage=cov,
              assumptions=list(getattr(mod, 'ASSUMPTIONS', [])), wall_s=round(time.time() - t0, 2),
              violations=len(violations))
    if not args.no_evidence:
        os.makedirs(os.path.join(VERIF, 'evidence'), exist_ok=True)
        json.dump(ev, open(os.path.join(VERIF, 'evidence', '%s.json' % pid), 'w'), indent=1)

    # ---------------- report
    print('%s tier=%s seed=%d repo=%s: %d instances, %d paths (+%d pruned), %d/%d obligations discharged, '
          '%d solver queries %.1fs, witnesses ok=%d bad=%d, explore %.1fs total %.1fs'
          % (pid, tier, seed, REPO, len(agg), tot('paths'), tot('aborted'), tot('discharged'), tot('obligations'),
             tot('checks'), tot('ztime'), wit_ok, wit_bad, wall_explore, time.time() - t0))
    if args.verbose:
        for n, a in agg.items():
            print('  %-50s paths=%-6d pruned=%-5d obl=%-6d fail=%-3d inc=%-3d err=%-3d z3=%.1fs'
                  % (n, a['paths'], a['aborted'], a['obligations'], len(a['failures']), len(a['inconclusive']),
                     len(a['errors']), a['ztime']))
    for w in wit_notes[:10]:
        print('  witness-note:', w)
    for l in lines:
        print(l)
    for e in inconclusive[:15]:
        print('INCONCLUSIVE', e)
    for e in (harness_errors + unreproduced)[:15]:
        print('HARNESS-ERROR', e)
    print({0: 'RESULT held', 1: 'RESULT violation', 2: 'RESULT inconclusive', 3: 'RESULT harness-error'}[status])
    return status


def _merge_names(agg):
    d = {}
    for a in agg.values():
        for n, c in a['ob_names'].items():
            k = n.split('[')[0].split('@')[0]
            d[k] = d.get(k, 0) + c
    return dict(sorted(d.items())[:80])


def _slug(s):
    return ''.join(c if c.isalnum() or c in '-_.' else '_' for c in s)[:120]


def _z3v():
    import z3
    return z3.get_version_string()


def replay_main(args):
    rec = json.load(open(args.replay))
    pid = rec['property']
    _load(pid, rec['tier'], rec['seed'], symbolic=False)
    from . import stubs
    stubs.install_concrete()
    r = run_concrete(pid, rec['tier'], rec['seed'], rec)
    ob = r['obligations'].get(rec['obligation'])
    print(json.dumps(dict(instance=rec['instance'], obligation=rec['obligation'], result=ob, error=r['error'],
                          observed=r['observed']), indent=1))
    if r['ok'] and ob is not None and ob[1] is False:
        print('VIOLATION property=%s replay=%s' % (pid, args.replay))
        return 1
    print('not reproduced')
    return 0


def main():
    ap = argparse.ArgumentParser()
    ap.add_argument('property', nargs='?')
    ap.add_argument('--tier', choices=['quick', 'thorough'])
    ap.add_argument('--replay')
    ap.add_argument('--concrete')
    ap.add_argument('--instances')
    ap.add_argument('--jobs', type=int)
    ap.add_argument('--budget', type=int)
    ap.add_argument('--no-witness', action='store_true')
    ap.add_argument('--no-evidence', action='store_true')
    ap.add_argument('-v', '--verbose', action='store_true')
    args = ap.parse_args()
    if args.concrete:
        sys.exit(concrete_main(args))
    if args.replay:
        sys.exit(replay_main(args))
    sys.exit(check_main(args))


if __name__ == '__main__':
    main()
