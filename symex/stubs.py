"""Environment stubs shared by both modes: the random oracle (every draw is a fresh solver
variable constrained only by the documented contract of the drawing function) and the clock."""
import numbers
import z3
from .values import SReal, SBool, SInt, Ctx, Unsupported, zr, fval
from . import ob


class Oracle:
    """Replacement for `random` / `numpy.random`.  Draw k of kind K is the solver variable
    `K!k` on every path, so a model names the draws and replay can script them."""

    def __init__(self):
        self.reset()

    def reset(self):
        self.log = []
        self.override = None      # object with random()/randrange(n) giving scripted concrete draws
        self.tape = None          # when a list: every draw is appended (record) ...
        self.replay = None        # ... when a list: draws are taken from it (same random-generator state for a second run)
        self.replay_mismatch = False

    # ---- core draws
    def random(self):
        if self.replay is not None:
            if self.replay and self.replay[0][0] == 'random':
                return self.replay.pop(0)[1]
            self.replay_mismatch = True       # the replayed run consumes randomness differently: fall through to a fresh draw
        if self.override is not None:
            v = self.override.random()
            self.log.append(('random*', v))
            if self.tape is not None:
                self.tape.append(('random', v))
            return v
        c = Ctx.cur
        if c.mode == 'sym':
            r = c.fresh('rnd')
            c.assume(z3.And(r >= 0, r < 1))
            v = SReal(r)
        else:
            v = float(c.fresh_value('rnd', 0.5))
            v = min(max(v, 0.0), 1.0 - 2 ** -53)
        self.log.append(('random', v))
        if self.tape is not None:
            self.tape.append(('random', v))
        return v

    def _index(self, n, kind='rr'):
        n = int(n)
        if self.replay is not None:
            if self.replay and self.replay[0][0] == 'index' and 0 <= self.replay[0][1] < n:
                return self.replay.pop(0)[1]
            self.replay_mismatch = True
        if self.override is not None:
            v = self.override.randrange(n)
            self.log.append((kind + '*', v))
            if self.tape is not None:
                self.tape.append(('index', v))
            return v
        v = Ctx.cur.choose(n, kind)
        self.log.append((kind, v))
        if self.tape is not None:
            self.tape.append(('index', v))
        return v

    # ---- random module API
    def seed(self, *a, **k):
        return None

    def getstate(self):
        return ('oracle',)

    def setstate(self, s):
        return None

    def uniform(self, a, b):
        return a + (b - a) * self.random()

    def randrange(self, start, stop=None, step=1):
        if stop is None:
            return self._index(start)
        if step != 1:
            raise Unsupported('randrange step')
        return start + self._index(stop - start)

    def randint(self, a, b):
        return a + self._index(b - a + 1)

    def choice(self, seq):
        seq = list(seq)
        return seq[self._index(len(seq), 'rc')]

    def sample(self, population, k):
        pool = list(population)
        out = []
        for _ in range(k):
            out.append(pool.pop(self._index(len(pool), 'rs')))
        return out

    def shuffle(self, x):
        n = len(x)
        items = [x[i] for i in range(n)]
        out = []
        while items:
            out.append(items.pop(self._index(len(items), 'sh')))
        for i in range(n):
            x[i] = out[i]

    def gauss(self, *a):
        raise Unsupported('random.gauss')
    normalvariate = gauss


class NPRandom:
    """numpy.random facade over the same oracle"""

    def __init__(self, oracle, realnp):
        self.o = oracle
        self.np = realnp

    def _fill(self, shape, gen):
        np = self.np
        if shape is None or shape == ():
            return gen()
        if isinstance(shape, numbers.Integral):
            shape = (int(shape),)
        shape = tuple(int(s) for s in shape)
        n = 1
        for s in shape:
            n *= s
        out = np.empty(n, dtype=object if Ctx.cur.mode == 'sym' else float)
        for i in range(n):
            out[i] = gen()
        return out.reshape(shape)

    def seed(self, *a, **k): return None
    def get_state(self): return ('oracle',)
    def set_state(self, s): return None

    def rand(self, *shape):
        return self._fill(shape if shape else None, self.o.random)

    def random(self, size=None):
        return self._fill(size, self.o.random)
    random_sample = random
    ranf = random
    sample = random

    def uniform(self, low=0.0, high=1.0, size=None):
        np = self.np
        if size is None:
            lo = np.asarray(low, dtype=object) if Ctx.cur.mode == 'sym' else np.asarray(low)
            hi = np.asarray(high, dtype=object) if Ctx.cur.mode == 'sym' else np.asarray(high)
            shape = np.broadcast(lo, hi).shape
            if shape == ():
                return low + (high - low) * self.o.random()
            r = self._fill(shape, self.o.random)
            return lo + (hi - lo) * r
        r = self._fill(size, self.o.random)
        return low + (high - low) * r

    def randint(self, low, high=None, size=None, dtype=int):
        if high is None:
            low, high = 0, low
        g = lambda: low + self.o._index(high - low, 'ri')
        if size is None:
            return g()
        a = self._fill(size, g)
        return a.astype(int)

    def choice(self, a, size=None, replace=True, p=None):
        if p is not None:
            raise Unsupported('numpy.random.choice with p')
        seq = list(range(a)) if isinstance(a, numbers.Integral) else list(a)
        if size is None:
            return seq[self.o._index(len(seq), 'rc')]
        if replace:
            out = self._fill(size, lambda: seq[self.o._index(len(seq), 'rc')])
        else:
            pool = list(seq)
            out = self._fill(size, lambda: pool.pop(self.o._index(len(pool), 'rc')))
        try:
            return self.np.asarray(out.tolist())
        except Exception:
            return out

    def shuffle(self, x):
        self.o.shuffle(x)

    def permutation(self, x):
        seq = list(range(x)) if isinstance(x, numbers.Integral) else list(x)
        self.o.shuffle(seq)
        return self.np.asarray(seq)

    def normal(self, *a, **k):
        raise Unsupported('numpy.random.normal')
    randn = normal
    standard_normal = normal


ORACLE = Oracle()


class Clock:
    """time.time(): arbitrary non-decreasing instants"""

    def __init__(self):
        self.last = None

    def reset(self):
        self.last = None

    def time(self):
        c = Ctx.cur
        if c.mode == 'sym':
            t = c.fresh('clk')
            if self.last is not None:
                c.assume(t >= zr(self.last))
            else:
                c.assume(t >= 0)
            v = SReal(t)
        else:
            v = float(c.fresh_value('clk', 0.0))
        self.last = v
        return v


CLOCK = Clock()


def install_concrete():
    """replay mode: route the real `random` / `numpy.random` / `time.time` of the unhooked
    interpreter through the oracle so the model's draws are used"""
    import random
    import numpy
    for n in ('random', 'uniform', 'randrange', 'randint', 'choice', 'sample', 'shuffle', 'seed',
              'getstate', 'setstate'):
        setattr(random, n, getattr(ORACLE, n))
    npr = NPRandom(ORACLE, numpy)
    for n in ('rand', 'random', 'random_sample', 'ranf', 'sample', 'uniform', 'randint', 'choice',
              'shuffle', 'permutation', 'seed', 'get_state', 'set_state'):
        setattr(numpy.random, n, getattr(npr, n))
