"""Independent interpreter for mystic's constraint text: Python `ast` -> z3 terms (and, for replay, Python floats).

Supports numbers, names, x[i], + - * /, ** with a small non-negative integer exponent, unary +/-, abs, min, max.
Every division contributes a definedness side condition (divisor != 0).
"""
import ast
from fractions import Fraction
import z3

CMPS = ('<=', '>=', '!=', '==', '<', '>', '=')


def comparator(line):
    for c in ('<=', '>=', '!=', '=='):
        if c in line:
            return c
    for c in ('<', '>', '='):
        if c in line:
            return c
    raise ValueError('no comparator in %r' % line)


def split(line):
    c = comparator(line)
    lhs, rhs = line.split(c, 1)
    return lhs.strip(), c, rhs.strip()


class Z3Interp(object):
    def __init__(self, env=None):
        self.env = env if env is not None else {}
        self.defined = []

    def var(self, name):
        if name not in self.env:
            self.env[name] = z3.Real(name)
        return self.env[name]

    def expr(self, text):
        return self._e(ast.parse(text.strip(), mode='eval').body)

    def _e(self, n):
        if isinstance(n, ast.Constant):
            v = n.value
            if isinstance(v, bool) or not isinstance(v, (int, float)):
                raise NotImplementedError(repr(v))
            return z3.RealVal(str(Fraction(v))) if isinstance(v, float) else z3.RealVal(v)
        if isinstance(n, ast.Name):
            return self.var(n.id)
        if isinstance(n, ast.Subscript):
            base = n.value.id
            idx = n.slice.value if isinstance(n.slice, ast.Constant) else ast.literal_eval(n.slice)
            return self.var('%s%d' % (base, idx))
        if isinstance(n, ast.UnaryOp):
            v = self._e(n.operand)
            if isinstance(n.op, ast.USub):
                return -v
            if isinstance(n.op, ast.UAdd):
                return v
        if isinstance(n, ast.BinOp):
            a, b = self._e(n.left), self._e(n.right)
            if isinstance(n.op, ast.Add):
                return a + b
            if isinstance(n.op, ast.Sub):
                return a - b
            if isinstance(n.op, ast.Mult):
                return a * b
            if isinstance(n.op, ast.Div):
                self.defined.append(b != 0)
                return a / b
            if isinstance(n.op, ast.Pow):
                e = n.right
                if isinstance(e, ast.Constant) and isinstance(e.value, int) and 0 <= e.value <= 6:
                    r = z3.RealVal(1)
                    for _ in range(e.value):
                        r = r * a
                    return r
        if isinstance(n, ast.Call) and isinstance(n.func, ast.Name):
            args = [self._e(a) for a in n.args]
            if n.func.id == 'abs' and len(args) == 1:
                return z3.If(args[0] >= 0, args[0], -args[0])
            if n.func.id in ('min', 'max') and args:
                r = args[0]
                for a in args[1:]:
                    r = z3.If(a < r, a, r) if n.func.id == 'min' else z3.If(a > r, a, r)
                return r
        raise NotImplementedError(ast.dump(n))

    def absmag(self, text):
        """sum of the absolute values of the monomials of an expression (the scale against which rounding of its printed
        coefficients has to be measured)"""
        return self._m(ast.parse(text.strip(), mode='eval').body)

    def _m(self, n):
        ab = lambda v: z3.If(v >= 0, v, -v)
        if isinstance(n, ast.BinOp) and isinstance(n.op, (ast.Add, ast.Sub)):
            return self._m(n.left) + self._m(n.right)
        if isinstance(n, ast.BinOp) and isinstance(n.op, ast.Mult):
            return self._m(n.left) * self._m(n.right)
        if isinstance(n, ast.UnaryOp):
            return self._m(n.operand)
        return ab(self._e(n))

    def line(self, text, margin=None):
        """relation of one line; with `margin` (a z3 term) returns (robustly_true, robustly_false)"""
        lhs, c, rhs = split(text)
        a, b = self.expr(lhs), self.expr(rhs)
        rel = {'<': a < b, '<=': a <= b, '>': a > b, '>=': a >= b, '=': a == b, '==': a == b, '!=': a != b}[c]
        if margin is None:
            return rel
        m = margin
        if c in ('<', '<='):
            return rel, a <= b - m, a >= b + m
        if c in ('>', '>='):
            return rel, a >= b + m, a <= b - m
        if c in ('=', '=='):
            return rel, a == b, z3.Or(a >= b + m, a <= b - m)
        return rel, z3.Or(a >= b + m, a <= b - m), a == b

    def system(self, text):
        lines = [l for l in text.strip().split('\n') if l.strip()]
        return z3.And(*[self.line(l) for l in lines]) if lines else z3.BoolVal(True)


def py_eval_line(text, values):
    """the same relation evaluated by Python on floats (replay side); None if undefined (division by zero)"""
    lhs, c, rhs = split(text)
    env = dict(values)
    env['abs'], env['min'], env['max'] = abs, min, max
    try:
        a = eval(compile(ast.parse(_subscripts(lhs), mode='eval'), '<c12>', 'eval'), {'__builtins__': {}}, env)
        b = eval(compile(ast.parse(_subscripts(rhs), mode='eval'), '<c12>', 'eval'), {'__builtins__': {}}, env)
    except ZeroDivisionError:
        return None, None, None
    r = {'<': a < b, '<=': a <= b, '>': a > b, '>=': a >= b, '=': a == b, '==': a == b, '!=': a != b}[c]
    return r, a, b


def _subscripts(text):
    import re
    return re.sub(r'\b([A-Za-z_]\w*)\[(\d+)\]', r'\1\2', text)


def py_absmag(text, values):
    env = dict(values)

    def m(n):
        if isinstance(n, ast.BinOp) and isinstance(n.op, (ast.Add, ast.Sub)):
            return m(n.left) + m(n.right)
        if isinstance(n, ast.BinOp) and isinstance(n.op, ast.Mult):
            return m(n.left) * m(n.right)
        if isinstance(n, ast.UnaryOp):
            return m(n.operand)
        e = dict(env)
        e['abs'], e['min'], e['max'] = abs, min, max
        return abs(eval(compile(ast.Expression(n), '<c12>', 'eval'), {'__builtins__': {}}, e))
    return m(ast.parse(_subscripts(text).strip(), mode='eval').body)
