"""Exact polynomial normal form of z3 real arithmetic terms (rational coefficients; any non-arithmetic subterm -
uninterpreted application, ite, to_real - is an opaque atom).  Used to close obligations that are polynomial
identities by normalisation instead of by the nonlinear-real decision procedure."""
from fractions import Fraction
import z3

MAX_TERMS = 20000


class TooBig(Exception):
    pass


def _mul(p, q):
    out = {}
    if len(p) * len(q) > MAX_TERMS:
        raise TooBig()
    for m1, c1 in p.items():
        for m2, c2 in q.items():
            m = tuple(sorted(m1 + m2))
            v = out.get(m, 0) + c1 * c2
            if v:
                out[m] = v
            else:
                out.pop(m, None)
    return out


def _add(p, q, sign=1):
    out = dict(p)
    for m, c in q.items():
        v = out.get(m, 0) + sign * c
        if v:
            out[m] = v
        else:
            out.pop(m, None)
    return out


def poly(t, cache=None):
    """term -> {monomial(tuple of atom ids): Fraction} or None if not a polynomial with constant divisors"""
    if cache is None:
        cache = {}
    key = t.get_id()
    if key in cache:
        return cache[key]
    r = _poly(t, cache)
    cache[key] = r
    return r


def _poly(t, cache):
    if z3.is_rational_value(t) or z3.is_int_value(t):
        f = t.as_fraction() if z3.is_rational_value(t) else Fraction(t.as_long())
        return {(): Fraction(f)} if f else {}
    k = t.decl().kind()
    ch = t.children()
    if k == z3.Z3_OP_ADD:
        out = {}
        for c in ch:
            p = poly(c, cache)
            if p is None:
                return None
            out = _add(out, p)
        return out
    if k == z3.Z3_OP_SUB:
        out = poly(ch[0], cache)
        if out is None:
            return None
        for c in ch[1:]:
            p = poly(c, cache)
            if p is None:
                return None
            out = _add(out, p, -1)
        return out
    if k == z3.Z3_OP_UMINUS:
        p = poly(ch[0], cache)
        return None if p is None else {m: -c for m, c in p.items()}
    if k == z3.Z3_OP_MUL:
        out = {(): Fraction(1)}
        for c in ch:
            p = poly(c, cache)
            if p is None:
                return None
            out = _mul(out, p)
        return out
    if k == z3.Z3_OP_DIV:
        num, den = poly(ch[0], cache), poly(ch[1], cache)
        if num is None or den is None:
            return None
        if list(den.keys()) == [()]:
            d = den[()]
            return {m: c / d for m, c in num.items()}
        # division by a non-constant: opaque atom
        return {(('div', t.get_id()),): Fraction(1)}
    if k == z3.Z3_OP_POWER:
        e = ch[1]
        if z3.is_int_value(e) or (z3.is_rational_value(e) and e.as_fraction().denominator == 1):
            n = int(e.as_fraction()) if z3.is_rational_value(e) else e.as_long()
            if 0 <= n <= 8:
                base = poly(ch[0], cache)
                if base is None:
                    return None
                out = {(): Fraction(1)}
                for _ in range(n):
                    out = _mul(out, base)
                return out
        return {(('atom', t.get_id()),): Fraction(1)}
    if k == z3.Z3_OP_TO_REAL and (z3.is_int_value(ch[0])):
        return {(): Fraction(ch[0].as_long())} if ch[0].as_long() else {}
    # anything else (constants/variables, UF applications, ite, ...) is an atom
    return {(('atom', t.get_id()),): Fraction(1)}


def is_identity(o):
    """True if the Bool term `o` is (a conjunction of) equalities between real terms that normalise to the same polynomial"""
    try:
        return _ident(o)
    except TooBig:
        return False


def _ident(o):
    k = o.decl().kind()
    if z3.is_true(o):
        return True
    if k == z3.Z3_OP_AND:
        return all(_ident(c) for c in o.children())
    if k == z3.Z3_OP_EQ and o.arg(0).sort() == z3.RealSort():
        cache = {}
        a, b = poly(o.arg(0), cache), poly(o.arg(1), cache)
        if a is None or b is None:
            return False
        return not _add(a, b, -1)
    return False


# ---------------------------------------------------------------------------------------------------------------------
# canonical rebuild: every maximal real-arithmetic subterm is replaced by the z3 term of its polynomial normal form, so that
# equal polynomials become the SAME term and linear reasoning over shared monomials suffices where nlsat gives up
def canon(t, cache=None, atoms=None):
    if cache is None:
        cache = {}
    if atoms is None:
        atoms = {}
    return _canon(t, cache, atoms)


def _canon(t, cache, atoms):
    key = t.get_id()
    if key in cache:
        return cache[key]
    if z3.is_quantifier(t) or not z3.is_app(t):
        cache[key] = t
        return t
    if t.sort() == z3.RealSort() and t.decl().kind() in (z3.Z3_OP_ADD, z3.Z3_OP_SUB, z3.Z3_OP_MUL, z3.Z3_OP_DIV, z3.Z3_OP_UMINUS, z3.Z3_OP_POWER):
        try:
            r = _canon_arith(t, cache, atoms)
        except TooBig:
            r = None
        if r is not None:
            cache[key] = r
            return r
    ch = t.children()
    if not ch:
        cache[key] = t
        return t
    new = [_canon(c, cache, atoms) for c in ch]
    r = t.decl()(*new) if any(n.get_id() != c.get_id() for n, c in zip(new, ch)) else t
    cache[key] = r
    return r


def _canon_arith(t, cache, atoms):
    pc = {}
    p = poly(t, pc)
    if p is None:
        return None
    # atoms: canonicalise their insides too
    terms = _collect_atoms(t, {})

    def atom_term(a):
        kind, ident = a
        if ident not in atoms:
            atoms[ident] = _canon_children(terms[ident], cache, atoms)
        return atoms[ident]
    monos = []
    for m in sorted(p, key=lambda mm: tuple(x[1] for x in mm)):
        c = p[m]
        term = z3.RealVal(str(c))
        factors = [atom_term(a) for a in m]
        if factors:
            prod = factors[0]
            for f in factors[1:]:
                prod = prod * f
            term = prod if c == 1 else term * prod
        monos.append(term)
    if not monos:
        return z3.RealVal(0)
    return monos[0] if len(monos) == 1 else z3.Sum(monos)


def _canon_children(t, cache, atoms):
    ch = t.children()
    if not ch:
        return t
    new = [_canon(c, cache, atoms) for c in ch]
    return t.decl()(*new) if any(n.get_id() != c.get_id() for n, c in zip(new, ch)) else t


def _collect_atoms(t, out):
    """id -> term for every subterm that poly() treats as an atom"""
    if z3.is_rational_value(t) or z3.is_int_value(t):
        return out
    k = t.decl().kind()
    ch = t.children()
    if k in (z3.Z3_OP_ADD, z3.Z3_OP_SUB, z3.Z3_OP_UMINUS, z3.Z3_OP_MUL):
        for c in ch:
            _collect_atoms(c, out)
        return out
    if k == z3.Z3_OP_DIV:
        d = poly(ch[1], {})
        if d is not None and list(d.keys()) == [()]:
            _collect_atoms(ch[0], out)
            return out
        out[t.get_id()] = t
        return out
    if k == z3.Z3_OP_POWER:
        e = ch[1]
        if (z3.is_int_value(e) or (z3.is_rational_value(e) and e.as_fraction().denominator == 1)):
            n = int(e.as_fraction()) if z3.is_rational_value(e) else e.as_long()
            if 0 <= n <= 8:
                _collect_atoms(ch[0], out)
                return out
    if k == z3.Z3_OP_TO_REAL and z3.is_int_value(ch[0]):
        return out
    out[t.get_id()] = t
    return out
