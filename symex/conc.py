"""Concrete twin of values.Ctx: the same harness code runs against the real (unhooked) mystic
with floats taken from a solver model.  Used to (a) replay counterexamples before they are
reported and (b) validate that a symbolic path agrees with the implementation (witness runs)."""
import math
from .ob import CBool, RTOL


class AssumptionFailed(BaseException):
    pass


class CUF:
    def __init__(self, name, arity, nout, table, default):
        self.name, self.arity, self.nout = name, arity, nout
        self.table = [(tuple(float(a) for a in k), v) for k, v in table]
        self.default = default
        self.misses = 0
        self.calls = []

    def _lookup(self, args):
        best, bd = None, None
        for k, v in self.table:
            d = max([abs(a - b) / (1.0 + abs(a) + abs(b)) for a, b in zip(k, args)] or [0.0])
            if bd is None or d < bd:
                best, bd = v, d
        if best is not None and bd <= 1e-7:
            return best
        self.misses += 1
        # deterministic default that depends on the point (so distinct unseen points differ)
        h = sum((i + 1) * 0.37 * a for i, a in enumerate(args))
        base = self.default if self.default is not None else 0.0
        if self.nout is None:
            return base + 1000.0 + abs(h)
        return [base + 1000.0 + abs(h) + j for j in range(self.nout)]

    def __call__(self, *args):
        if len(args) == 1 and hasattr(args[0], '__len__'):
            args = list(args[0])
        args = tuple(float(a) for a in args)
        self.calls.append(args)
        v = self._lookup(args)
        if self.nout is None:
            return float(v[0]) if isinstance(v, (list, tuple)) else float(v)
        return [float(t) for t in v]

    z = __call__


class ConcCtx:
    mode = 'conc'

    def __init__(self, values=None, tables=None):
        self.values = dict(values or {})
        self.tables = dict(tables or {})
        self.nfresh = {}
        self.ufuncs = {}
        self.notes = []
        self.observed = []
        self.missing = []
        self.failed_assumptions = 0

    def _get(self, name, default=0.0):
        if name in self.values:
            return self.values[name]
        self.missing.append(name)
        return default

    def real(self, name):
        return float(self._get(name))

    def reals(self, name, n):
        return [self.real('%s%d' % (name, i)) for i in range(n)]

    def int(self, name, lo=None, hi=None):
        v = int(self._get(name, lo if lo is not None else 0))
        return v

    def bool(self, name):
        return bool(self._get(name, False))

    def ufunc(self, name, arity, nout=None):
        if name not in self.ufuncs:
            t = self.tables.get(name, {})
            self.ufuncs[name] = CUF(name, arity, nout, t.get('table', []), t.get('default'))
        return self.ufuncs[name]

    def fresh_value(self, pfx, default=0.0):
        k = self.nfresh.get(pfx, 0)
        self.nfresh[pfx] = k + 1
        return self._get('%s!%d' % (pfx, k), default)

    def choose(self, n, name='ch'):
        v = int(self.fresh_value(name, 0))
        return min(max(v, 0), n - 1)

    def assume(self, e):
        ok = e.lenient if isinstance(e, CBool) else bool(e)
        if not ok:
            self.failed_assumptions += 1
            raise AssumptionFailed()

    def note(self, s):
        self.notes.append(s)

    def observe(self, name, value):
        self.observed.append((name, value))
