"""C01 - the reported optimum is a genuinely evaluated point with its true energy.

Real code executed: AbstractSolver.Step/_bootstrap_objective/_decorate_objective/Terminated,
DifferentialEvolutionSolver[2]._decorate_objective/_Step, strategy.*, NelderMeadSimplexSolver.
_decorate_objective/_Step/_setSimplexWithinRangeBoundary, PowellDirectionalSolver._Step/Finalize,
_linesearch_powell, tools.wrap_function/wrap_bounds/wrap_penalty/wrap_nested/reduced, constraints.and_,
monitors.Monitor, fmin/fmin_powell/diffev/diffev2 wrappers.
Symbolic: population / simplex / initial point, box, the cost f, penalty p >= 0, constraints c (uninterpreted,
idempotent, box-preserving), all random draws of the focus candidate, line-search results.
Induction: the pre-state of a step is arbitrary subject to the invariant the step is shown to re-establish.
"""
from symex.engine import Instance
from symex.ob import (eq, ne, le, lt, ge, gt, And, Or, Not, Implies, Iff, const, ite, absv, maxv, minv, R,
                      sumv, isinf, veq)
from harness import solverlib as L
from harness import steps as S

PROPERTY = 'C01'
LEVEL = 'model_checking'
ASSUMPTIONS = [
    'floats modelled as exact reals; cost values are finite reals (out-of-box energy is the concrete inf mystic assigns); NaN outside the claim',
    'constraints function: deterministic, idempotent (c(c(x)) = c(x)), maps the strict box into itself - the property\'s own precondition',
    'the penalty is an arbitrary real-valued uninterpreted function (negative values allowed: barrier / Lagrange penalties)',
    'DE: all random draws of ONE focus candidate per instance are solver variables (every candidate position is an instance); '
    'the other candidates use fixed draws (first available partners, crossover only at the forced index) - their vectors and energies stay symbolic',
    'Powell: Brent line search replaced by its contract (evaluates func(0) and func(alpha) for an arbitrary step length alpha with func(alpha) <= func(0), returns (alpha, func(alpha)))',
    'one step per harness from an arbitrary state satisfying the invariant (induction); settings fixed during the step',
    'ensembles: only the reduction kernel (best member hand-back) is executed; whole lattice/buckshot/sparsity solves are outside the claim',
]
BOUNDS = {'quick': dict(dim='1..2', NP=4, strategies=['Best1Bin', 'Rand1Exp'], steps='1 (DE, NM from arbitrary state); 0..2 from arbitrary x0 (NM start, Powell)'),
          'thorough': dict(dim='1..3', NP='4..6', strategies='all ten', steps='1 (DE, NM from arbitrary state); 0..2 from arbitrary x0 (NM start, Powell)')}
BUDGET = {'quick': 1800, 'thorough': 5400}


def nm_objective(w, E, v):
    """E is the decorated NM objective at vertex v: cost+penalty at c(v), inf if c(v) leaves the box"""
    return w.energy_is(E, w.C(v))


def oblig(r):
    w, k = r.w, r.kind
    obs = []
    if k == 'de-step':
        pre, post = r.pre, r.post
        obs.append(('step-returned-no-stop', const(r.msg is None)))
        for i in range(r.NP):
            obs.append(('member-energy-is-objective[%d]' % i, w.energy_is(post['en'][i], post['pop'][i])))
            obs.append(('member-feasible[%d]' % i, w.feasible(post['pop'][i])))
            obs.append(('best<=member[%d]' % i, le(post['bestE'], post['en'][i])))
        b1, be1 = post['best'], post['bestE']
        obs.append(('best-energy-is-objective-at-best', w.energy_is(be1, b1)))
        obs.append(('best-not-worse', le(be1, pre['bestE'])))
        obs.append(('best-is-old-best-or-evaluated-point', Or(veq(b1, pre['best']), w.was_called_at(b1))))
        obs.append(('best-is-a-member', Or(*[And(veq(b1, post['pop'][i]), eq(be1, post['en'][i])) for i in range(r.NP)])))
        obs.append(('at-most-one-evaluation-per-candidate', const(post['ncalls'] - pre['ncalls'] <= r.NP)))
    elif k == 'de-gen0':
        post = r.post
        b1, be1 = post['best'], post['bestE']
        for i in range(r.NP):
            if isinf(post['en'][i]):
                obs.append(('dead-member-only-if-outside[%d]' % i, const(w.lo is not None)))
            else:
                obs.append(('member-energy-is-objective[%d]' % i, w.energy_is(post['en'][i], post['pop'][i])))
                obs.append(('member-feasible[%d]' % i, w.feasible(post['pop'][i])))
                obs.append(('member-was-evaluated[%d]' % i, w.was_called_at(post['pop'][i])))
            obs.append(('best<=member[%d]' % i, le(be1, post['en'][i])))
        if not isinf(be1):
            obs.append(('best-energy-is-objective-at-best', w.energy_is(be1, b1)))
            obs.append(('best-was-evaluated', w.was_called_at(b1)))
            x0 = w.C(w.clip(r.pre['pop'][0]))
            obs.append(('best<=initial-guess', Implies(w.inside(x0), le(be1, w.raw(x0)))))
    elif k == 'nm-step':
        pre, post = r.pre, r.post
        b1, be1 = post['best'], post['bestE']
        n = len(post['pop'])
        obs.append(('step-returned-no-stop', const(r.msg is None)))
        for i in range(n):
            obs.append(('vertex-energy-is-objective[%d]' % i, nm_objective(w, post['en'][i], post['pop'][i])))
        for i in range(n - 1):
            obs.append(('simplex-sorted[%d]' % i, le(post['en'][i], post['en'][i + 1])))
        obs.append(('best-is-vertex-0', And(veq(b1, post['pop'][0]), eq(be1, post['en'][0]) if not isinf(be1) else const(isinf(post['en'][0])))))
        obs.append(('best-feasible', w.feasible(b1)))
        obs.append(('best-energy-is-cost+penalty-at-best', w.energy_is(be1, b1)))
        obs.append(('best-not-worse', le(be1, pre['en'][0])))
        obs.append(('best-is-old-vertex-or-evaluated-point', Or(Or(*[veq(b1, cv) for cv in pre['cpop']]), w.was_called_at(b1))))
    elif k in ('nm-start', 'powell', 'mode-step'):
        post, g = r.post, r.g
        b1, be1 = post['best'], post['bestE']
        if k == 'nm-start':
            for i in range(len(post['pop']) if g else 1):
                if not isinf(post['en'][i]):
                    obs.append(('vertex-energy-is-objective@%d[%d]' % (g, i), nm_objective(w, post['en'][i], post['pop'][i])))
        if isinf(be1):
            obs.append(('inf-only-if-outside@%d' % g, w.energy_is(be1, w.C(b1))))
        else:
            obs.append(('best-feasible@%d' % g, w.feasible(b1)))
            obs.append(('best-energy-is-cost+penalty-at-best@%d' % g, w.energy_is(be1, b1)))
            obs.append(('best-was-evaluated@%d' % g, w.was_called_at(b1)))
            # the initial guess as the solver evaluates it: clipped into the box, then constrained
            if k != 'mode-step' or not w.calls:
                g0 = w.C(w.clip(r.pre['x0']))
            else:
                g0 = w.calls[0]        # tight/clip modes: the initial guess as the solver first evaluates it
            obs.append(('best<=initial-guess@%d' % g, Implies(w.inside(g0), le(be1, w.raw(g0)))))
            if k == 'powell' or (k == 'mode-step' and r.solver == 'Powell'):
                eh = [L.scalar(e) for e in r.s.energy_history]
                obs.append(('history-ends-in-best@%d' % g, eq(eh[-1], be1) if not isinf(eh[-1]) else const(False)))
    elif k == 'decoration':
        obs.append(('decorated-value', w.energy_is(r.out, r.target)))
        if isinf(r.out):
            obs.append(('not-called-outside-box', const(len(w.calls) == r.n0)))
        else:
            obs.append(('called-exactly-once', const(len(w.calls) == r.n0 + 1)))
            if len(w.calls) > r.n0:
                obs.append(('called-at-the-constrained-point', veq(w.calls[-1], r.target)))
        if w.cons != 'inplace':
            obs.append(('argument-not-modified', veq(L.vec(r.arg), r.x)))
    elif k == 'wrapper':
        out = r.out
        xopt, fopt = L.vec(out[0]), L.scalar(out[1])
        obs.append(('iterations<=maxiter', const(out[2] <= r.maxiter)))
        if not isinf(fopt):
            obs.append(('fopt-is-cost+penalty-at-xopt', w.energy_is(fopt, xopt)))
            obs.append(('xopt-was-evaluated', w.was_called_at(xopt)))
            obs.append(('xopt-feasible', w.feasible(xopt)))
    return obs


def ranges_midrun(kind, dim, nsteps0, then):
    """public API only: `nsteps0` Steps from an arbitrary start, THEN SetStrictRanges(lo, hi) (arbitrary box), then either a
    Solve whose generation limit is already met (`solve0`: reports without iterating) or one more Step: what is reported
    (and, for NM/DE, every stored member) is still a point with its true energy"""
    from symex import stubs

    def h(ctx):
        w = L.World(ctx, dim, box=False, cons=None)
        lo, hi = ctx.reals('lo', dim), ctx.reals('hi', dim)
        for a, b in zip(lo, hi):
            ctx.assume(le(a, b))
        s = S.make_solver(kind, dim)
        L.configure(s, w)
        if kind == 'Powell':
            S.install_brent_contract(ctx)
        x0 = ctx.reals('x', dim)
        if kind in ('DE', 'DE2'):
            for i in range(s.nPop):
                s.population[i] = [x0[j] + i for j in range(dim)]
            stubs.ORACLE.override = S.FixedDraws()
        else:
            s.population[0] = list(x0)
        try:
            for k in range(nsteps0):
                s.Step()
            w.lo, w.hi = lo, hi
            s.SetStrictRanges(L.arr(lo), L.arr(hi))
            if then == 'solve0':
                s.SetEvaluationLimits(generations=0, new=True)
                s.Solve()
            else:
                s.Step()
        finally:
            stubs.ORACLE.override = None
        pop, en, b1, be1 = L.state_of(s)
        obs = []
        if not isinf(be1):
            # (a point kept from before the box was imposed may lie outside it: its true cost is then still a truthful energy)
            obs.append(('best-energy-is-cost+penalty-at-best', eq(be1, w.raw(b1))))
            obs.append(('best-was-evaluated', w.was_called_at(b1)))
        if kind != 'Powell':
            for i in range(len(pop)):
                if not isinf(en[i]):
                    obs.append(('member-energy-is-cost+penalty-at-member[%d]' % i, eq(en[i], w.raw(pop[i]))))
        obs.append(('ran', const(True)))
        return obs
    return h


def step_instances(tier, oblig, configs=None, **kw):
    """the common grid of step scenarios (also used by C02-C04 with their own obligations)"""
    out = []
    q = tier == 'quick'
    CF = configs or ('plain', 'pen', 'cons', 'cons-inplace', 'box', 'box+cons+pen', 'reducer+pen')
    if q:
        grid = [(False, 'Best1Bin', 'plain', 2, 4), (False, 'Rand1Exp', 'box+cons+pen', 1, 4), (True, 'Best1Bin', 'box+cons+pen', 1, 4),
                (False, 'Best1Bin', 'pen', 1, 4), (True, 'Rand1Exp', 'cons-inplace', 1, 4), (False, 'Best1Bin', 'reducer+pen', 1, 4)]
        grid = [g for g in grid if g[2] in CF]
    else:
        grid = []
        for two in (False, True):
            for st in S.STRATEGIES:
                need = 6 if '2' in st else 4
                for cfg in ([c for c in ('plain', 'box+cons+pen') if c in CF] if st not in ('Best1Bin', 'Rand1Exp') else CF):
                    for dim in ((1, 2) if (cfg == 'plain' and need == 4) else (1,)):
                        grid.append((two, st, cfg, dim, need))
    for two, st, cfg, dim, NP in grid:
        for focus in range(NP):
            out.append(Instance('de-step/%s/%s/%s/dim=%d/NP=%d/focus=%d' % ('DE2' if two else 'DE', st, cfg, dim, NP, focus),
                                S.de_step(two, st, cfg, dim, NP, focus, oblig, **kw)))
    for two in (False, True):
        for cfg in ([c for c in ('plain', 'box', 'box+cons+pen') if c in CF] if q else CF):
            out.append(Instance('de-gen0/%s/%s/dim=1' % ('DE2' if two else 'DE', cfg), S.de_gen0(two, cfg, 1, 4, oblig, **kw)))
    for cfg in CF:
        for dim in ((1, 2) if (q and cfg in ('plain', 'cons')) or (not q) else (1,)):
            out.append(Instance('nm-step/%s/dim=%d' % (cfg, dim), S.nm_step(cfg, dim, oblig, **kw)))
        out.append(Instance('nm-start/%s/dim=1' % cfg, S.nm_start(cfg, 1, 1, oblig, **kw)))
    if 'plain' in CF:
        out.append(Instance('nm-step/plain/dim=2/adaptive', S.nm_step('plain', 2, oblig, adaptive=True, **kw)))
    if not q:
        if 'plain' in CF:
            out.append(Instance('nm-step/plain/dim=3', S.nm_step('plain', 3, oblig, **kw)))
            out.append(Instance('nm-start/plain/dim=2', S.nm_start('plain', 2, 1, oblig, **kw)))
        if 'box+cons+pen' in CF:
            out.append(Instance('nm-start/box+cons+pen/dim=2', S.nm_start('box+cons+pen', 2, 1, oblig, **kw)))
    for cfg in CF:
        out.append(Instance('powell/%s/dim=1/steps=3' % cfg, S.powell_steps(cfg, 1, 3, oblig, **kw), qtimeout=3000 if q else 20000))
    if 'plain' in CF:
        out.append(Instance('powell/plain/dim=2/steps=%d' % (2 if q else 3), S.powell_steps('plain', 2, 2 if q else 3, oblig, **kw)))
    if not q and 'cons' in CF:
        out.append(Instance('powell/cons/dim=2/steps=3', S.powell_steps('cons', 2, 3, oblig, **kw)))
    return out


def instances(tier, seed):
    out = []
    q = tier == 'quick'
    CF = ('plain', 'pen', 'cons', 'cons-inplace', 'box', 'box+cons+pen', 'reducer+pen')
    for kind in ('DE', 'DE2', 'NM', 'Powell'):
        for cfg in CF:
            out.append(Instance('decoration/%s/%s/dim=2' % (kind, cfg), S.decoration(kind, cfg, 2, oblig)))
    out += step_instances(tier, oblig)
    # tight / clip range modes (concrete boxes)
    pool = [S.BOX_POOL[0], S.BOX_POOL[3]] if q else S.BOX_POOL
    for lo, hi in pool:
        for mode in ('tight', 'clip=True'):
            for kind in (('NM', 'Powell') if q else ('NM', 'Powell', 'DE', 'DE2')):
                for cons in ((None,) if (q or len(lo) > 1) else (None, 'pure')):      # (2-D boxes with extra constraints: >150k paths each)
                    out.append(Instance('mode-step/%s/%s/box%d/%s' % (kind, mode, S.BOX_POOL.index((lo, hi)), cons or 'nocons'),
                                        S.mode_step(kind, mode, lo, hi, cons, oblig)))
    # a stopped run that is continued (Finalize, then Step): with strict ranges Nelder-Mead rebuilds its simplex on re-decoration
    for cfg in ('plain', 'cons', 'box'):
        out.append(Instance('nm-restart/%s/dim=1' % cfg, S.nm_step(cfg, 1, oblig, restart=True)))
    out.append(Instance('nm-restart/box/dim=2', S.nm_step('box', 2, oblig, restart=True)))
    if not q:
        out.append(Instance('nm-restart/box+cons+pen/dim=1', S.nm_step('box+cons+pen', 1, oblig, restart=True)))
        out.append(Instance('nm-restart/plain/dim=2', S.nm_step('plain', 2, oblig, restart=True)))
    # strict ranges imposed on a solver that has already evaluated points
    for kind in ('NM', 'Powell', 'DE'):
        for then in ('solve0', 'step'):
            for n0 in ((1,) if q else (1, 2, 3)):
                if kind == 'DE' and (n0 > 2 or (n0 > 1 and then == 'step')):
                    continue
                out.append(Instance('ranges-midrun/%s/after-%d-steps/%s/dim=1' % (kind, n0, then), ranges_midrun(kind, 1, n0, then), qtimeout=4000))
    # ensembles: the reduction kernel (reported pair = a best member's pair, also after the members progressed in step mode)
    from harness import c09
    for ek in ('lattice', 'buckshot'):
        for mk in ('NM', 'DE'):
            for n in ((2,) if q else (1, 2, 3)):
                out.append(Instance('ensemble-reduction/%s/%s-members/n=%d' % (ek, mk, n), c09.reduction(ek, mk, n, 2)))
    for kind in ('fmin', 'fmin_powell', 'diffev', 'diffev2'):
        for cfg in (('plain', 'box+cons+pen') if q else ('plain', 'pen', 'cons', 'box', 'box+cons+pen')):
            for mi in ((1,) if q else (0, 1, 2)):
                out.append(Instance('wrapper/%s/%s/maxiter=%d' % (kind, cfg, mi), S.wrapper(kind, cfg, 1, mi, oblig)))
    return out
