"""C01 - the reported optimum is a genuinely evaluated point with its true energy.

Real code executed: AbstractSolver.Step/_bootstrap_objective/_decorate_objective/Terminated,
DifferentialEvolutionSolver[2]._decorate_objective/_Step, strategy.*, NelderMeadSimplexSolver.
_decorate_objective/_Step/_setSimplexWithinRangeBoundary, PowellDirectionalSolver._Step/Finalize,
_linesearch_powell, tools.wrap_function/wrap_bounds/wrap_penalty/wrap_nested/reduced, constraints.and_,
monitors.Monitor, fmin/fmin_powell/diffev/diffev2 wrappers.
Symbolic: population / simplex / initial point, box, the cost f, penalty p >= 0, constraints c (uninterpreted,
idempotent, box-preserving), all random draws of the focus candidate, line-search results.
Induction: the pre-state of a step is arbitrary subject to the invariant the step is shown to re-establish.
"""
from symex.engine import Instance
from symex.values import Ctx
from symex import stubs
from symex.ob import (eq, ne, le, lt, ge, gt, And, Or, Not, Implies, Iff, const, ite, absv, maxv, minv, R,
                      sumv, isinf, veq)
from harness import solverlib as L

PROPERTY = 'C01'
LEVEL = 'model_checking'
ASSUMPTIONS = [
    'floats modelled as exact reals; cost values are finite reals (out-of-box energy is the concrete inf mystic assigns); NaN outside the claim',
    'constraints function: deterministic, idempotent (c(c(x)) = c(x)), maps the strict box into itself - the property\'s own precondition',
    'penalty >= 0',
    'DE: all random draws of ONE focus candidate per instance are solver variables (every candidate position is an instance); '
    'the other candidates use fixed draws (first available partners, crossover only at the forced index) - their vectors and energies stay symbolic',
    'Powell: Brent line search replaced by its contract (evaluates func(0) and func(alpha) for an arbitrary step length alpha with func(alpha) <= func(0), returns (alpha, func(alpha))); the contract itself is a separate instance family (brent/*)',
    'one step per harness from an arbitrary state satisfying the invariant (induction); settings fixed during the step',
]
BOUNDS = {'quick': dict(dim='1..2', NP=4, strategies=['Best1Bin', 'Rand1Exp'], steps=1),
          'thorough': dict(dim='1..3', NP='4..5', strategies='all ten', steps=1)}
BUDGET = {'quick': 600, 'thorough': 5400}

CONFIGS = {
    'plain': dict(),
    'pen': dict(pen=True),
    'cons': dict(cons='pure'),
    'cons-inplace': dict(cons='inplace'),
    'box': dict(box=True),
    'box+cons+pen': dict(box=True, cons='pure', pen=True),
    'reducer+pen': dict(ncost=2, pen=True),
}


class FixedDraws(object):
    def random(self):
        return 0.95

    def randrange(self, n):
        return 0


def focus_strategy(name, focus):
    import mystic.strategy as st
    real = getattr(st, name)

    def strategy(inst, candidate):
        stubs.ORACLE.override = None if (focus is None or candidate == focus) else FixedDraws()
        try:
            return real(inst, candidate)
        finally:
            stubs.ORACLE.override = None
    strategy.__name__ = name
    return strategy


def de_class(two):
    import mystic.differential_evolution as de
    return de.DifferentialEvolutionSolver2 if two else de.DifferentialEvolutionSolver


# ------------------------------------------------------------------------------------- DE
def de_step(two, strat, cfg, dim, NP, focus):
    def h(ctx):
        w = L.World(ctx, dim, **CONFIGS[cfg])
        s = de_class(two)(dim, NP)
        L.configure(s, w)
        P = [ctx.reals('P%d_' % i, dim) for i in range(NP)]
        for p in P:
            ctx.assume(w.inside(p))
            ctx.assume(w.feasible(p))
        boxed = w.lo is not None
        s.population = [L.arr(p) if boxed else list(p) for p in P]
        s._decorate_objective(w.cost)
        E = [w.raw(p) for p in P]
        jb = [ctx.bool('best_is_%d' % i) for i in range(NP)]
        ctx.assume(Or(*jb))
        best, bestE = ctx.reals('B', dim), ctx.real('BE')
        for i in range(NP):
            ctx.assume(le(bestE, E[i]))
            ctx.assume(Implies(jb[i], And(veq(best, P[i]), eq(bestE, E[i]))))
        s.popEnergy = list(E)
        s.bestSolution = L.arr(best)
        s.bestEnergy = bestE
        L.log_generations(s, 1, best, bestE)
        n0 = len(w.calls)
        ev0 = s.evaluations
        msg = s.Step(strategy=focus_strategy(strat, focus), callback=w.callback)
        pop, en, b1, be1 = L.state_of(s)
        obs = [('step-returned-no-stop', const(msg is None))]
        for i in range(NP):
            obs.append(('member-energy-is-objective[%d]' % i, w.energy_is(en[i], pop[i])))
            obs.append(('member-feasible[%d]' % i, w.feasible(pop[i])))
            obs.append(('best<=member[%d]' % i, le(be1, en[i])))
        obs.append(('best-energy-is-objective-at-best', w.energy_is(be1, b1)))
        obs.append(('best-not-worse', le(be1, bestE)))
        obs.append(('best-is-old-best-or-evaluated-point', Or(veq(b1, best), w.was_called_at(b1))))
        obs.append(('best-is-a-member', Or(*[And(veq(b1, pop[i]), eq(be1, en[i])) for i in range(NP)])))
        obs.append(('one-evaluation-per-candidate', const(len(w.calls) - n0 <= NP)))
        ctx.observe('bestEnergy', be1)
        ctx.observe('best', b1)
        return obs
    return h


def de_gen0(two, cfg, dim, NP):
    """generation 0 from an arbitrary initial population (public API only)"""
    def h(ctx):
        w = L.World(ctx, dim, **CONFIGS[cfg])
        s = de_class(two)(dim, NP)
        L.configure(s, w)
        P = [ctx.reals('P%d_' % i, dim) for i in range(NP)]
        for i in range(NP):
            s.population[i] = list(P[i])
        msg = s.Step(callback=w.callback)
        pop, en, b1, be1 = L.state_of(s)
        obs = []
        for i in range(NP):
            if isinf(en[i]):
                # never successfully evaluated: the trial was out of the box
                obs.append(('dead-member-only-if-outside[%d]' % i, const(w.lo is not None)))
            else:
                obs.append(('member-energy-is-objective[%d]' % i, w.energy_is(en[i], pop[i])))
                obs.append(('member-feasible[%d]' % i, w.feasible(pop[i])))
                obs.append(('member-was-evaluated[%d]' % i, w.was_called_at(pop[i])))
            obs.append(('best<=member[%d]' % i, le(be1, en[i])))
        if not isinf(be1):
            obs.append(('best-energy-is-objective-at-best', w.energy_is(be1, b1)))
            obs.append(('best-was-evaluated', w.was_called_at(b1)))
            # never worse than the initial guess (member 0 after constraints)
            x0 = w.C(w.clip(P[0]))
            obs.append(('best<=initial-guess', Implies(w.inside(x0), le(be1, w.raw(x0)))))
        ctx.observe('bestEnergy', be1)
        return obs
    return h


# ------------------------------------------------------------------------------------- Nelder-Mead
def nm_solver(dim):
    import mystic.scipy_optimize as so
    return so.NelderMeadSimplexSolver(dim)


def nm_objective(w, E, v):
    """E is the decorated NM objective at vertex v: cost+penalty at c(v), inf if c(v) leaves the box"""
    return w.energy_is(E, w.C(v))


def nm_step(cfg, dim, adaptive=False):
    def h(ctx):
        w = L.World(ctx, dim, **CONFIGS[cfg])
        s = nm_solver(dim)
        L.configure(s, w)
        V = [ctx.reals('V%d_' % i, dim) for i in range(dim + 1)]
        CV = [w.C(v) for v in V]
        for cv in CV:
            ctx.assume(w.inside(cv))
        ctx.assume(w.feasible(V[0]))
        ctx.assume(w.inside(V[0]))
        s.population[0] = L.arr(V[0])
        s._decorate_objective(w.cost)
        E = [w.raw(cv) for cv in CV]
        for i in range(dim):
            ctx.assume(le(E[i], E[i + 1]))
        s.population = L.mat(V)
        s.popEnergy = L.arr(E)
        L.log_generations(s, 1, V[0], E[0])
        n0 = len(w.calls)
        msg = s.Step(callback=w.callback, adaptive=adaptive)
        pop, en, b1, be1 = L.state_of(s)
        obs = [('step-returned-no-stop', const(msg is None))]
        for i in range(dim + 1):
            obs.append(('vertex-energy-is-objective[%d]' % i, nm_objective(w, en[i], pop[i])))
        for i in range(dim):
            obs.append(('simplex-sorted[%d]' % i, le(en[i], en[i + 1])))
        obs.append(('best-is-vertex-0', And(veq(b1, pop[0]), eq(be1, en[0]) if not isinf(be1) else const(isinf(en[0])))))
        obs.append(('best-feasible', w.feasible(b1)))
        obs.append(('best-energy-is-cost+penalty-at-best', w.energy_is(be1, b1)))
        obs.append(('best-not-worse', le(be1, E[0])))
        obs.append(('best-is-old-vertex-or-evaluated-point', Or(Or(*[veq(b1, cv) for cv in CV]), w.was_called_at(b1))))
        ctx.observe('bestEnergy', be1)
        ctx.observe('best', b1)
        return obs
    return h


def nm_start(cfg, dim, gens):
    """generation 0 (and 1: simplex construction) from an arbitrary initial guess, public API only"""
    def h(ctx):
        w = L.World(ctx, dim, **CONFIGS[cfg])
        s = nm_solver(dim)
        L.configure(s, w)
        x0 = ctx.reals('x', dim)
        s.population[0] = list(x0)
        obs = []
        for g in range(gens + 1):
            s.Step(callback=w.callback)
            pop, en, b1, be1 = L.state_of(s)
            for i in range(dim + 1 if g else 1):
                if not isinf(en[i]):
                    obs.append(('vertex-energy-is-objective@%d[%d]' % (g, i), nm_objective(w, en[i], pop[i])))
            if not isinf(be1):
                obs.append(('best-feasible@%d' % g, w.feasible(b1)))
                obs.append(('best-energy-is-cost+penalty-at-best@%d' % g, w.energy_is(be1, b1)))
                obs.append(('best-was-evaluated@%d' % g, w.was_called_at(b1)))
                # the initial guess as the solver evaluates it: clipped into the box, then constrained
                g0 = w.calls[0]
                obs.append(('best<=initial-guess@%d' % g, le(be1, w.raw(g0))))
        ctx.observe('bestEnergy', be1)
        return obs
    return h


# ------------------------------------------------------------------------------------- Powell
def install_brent_contract(ctx):
    """replace Brent by its contract: returns (alpha, func(alpha), 1, 1) for an arbitrary alpha"""
    import mystic.scipy_optimize as so

    def brent(func, args=(), brack=None, tol=1.48e-8, full_output=0, maxiter=500):
        if Ctx.mode == 'sym':
            from symex.values import SReal
            a = SReal(ctx.fresh('alpha'))
        else:
            a = float(ctx.fresh_value('alpha', 0.0))
        f0 = L.scalar(func(0.0))
        fa = L.scalar(func(a))
        ctx.assume(le(fa, f0) if not (isinf(fa) and isinf(f0)) else const(True))
        return a, fa, 1, 2
    so.brent = brent


def powell_steps(cfg, dim, steps):
    def h(ctx):
        import mystic.scipy_optimize as so
        install_brent_contract(ctx)
        w = L.World(ctx, dim, **CONFIGS[cfg])
        s = so.PowellDirectionalSolver(dim)
        L.configure(s, w)
        x0 = ctx.reals('x', dim)
        s.population[0] = list(x0)
        obs = []
        prev = None
        for g in range(steps):
            s.Step(callback=w.callback)
            pop, en, b1, be1 = L.state_of(s)
            if isinf(be1):
                obs.append(('inf-only-if-outside@%d' % g, w.energy_is(be1, w.C(b1))))
                continue
            obs.append(('best-feasible@%d' % g, w.feasible(b1)))
            obs.append(('best-energy-is-cost+penalty-at-best@%d' % g, w.energy_is(be1, b1)))
            obs.append(('best-was-evaluated@%d' % g, w.was_called_at(b1)))
            g0 = w.calls[0]
            obs.append(('best<=initial-guess@%d' % g, le(be1, w.raw(g0))))
            eh = [L.scalar(e) for e in s.energy_history]
            obs.append(('history-ends-in-best@%d' % g, eq(eh[-1], be1) if not isinf(eh[-1]) else const(False)))
        ctx.observe('bestEnergy', be1)
        return obs
    return h


# ------------------------------------------------------------------------------------- decoration stack
def decoration(kind, cfg, dim):
    """decorated(x) = reducer(cost(c'(x))) + penalty(c'(x)); inf iff c'(x) is outside the box; the raw cost is called
    once, at c'(x), iff inside.  c' = c for NM/Powell, identity for DE (which constrains in the step)."""
    def h(ctx):
        import mystic.scipy_optimize as so
        w = L.World(ctx, dim, **CONFIGS[cfg])
        if kind == 'NM':
            s = so.NelderMeadSimplexSolver(dim)
        elif kind == 'Powell':
            s = so.PowellDirectionalSolver(dim)
        else:
            s = de_class(kind == 'DE2')(dim, 4)
        L.configure(s, w)
        dec = s._decorate_objective(w.cost)
        n0 = len(w.calls)
        x = ctx.reals('x', dim)
        arg = L.arr(x)
        out = L.scalar(dec(arg))
        target = w.C(x) if kind in ('NM', 'Powell') else list(x)
        obs = [('decorated-value', w.energy_is(out, target))]
        if isinf(out):
            obs.append(('not-called-outside-box', const(len(w.calls) == n0)))
        else:
            obs.append(('called-exactly-once', const(len(w.calls) == n0 + 1)))
            if len(w.calls) > n0:
                obs.append(('called-at-the-constrained-point', veq(w.calls[-1], target)))
        obs.append(('argument-not-modified', veq(L.vec(arg), x)) if w.cons != 'inplace' else ('noop', const(True)))
        return obs
    return h


# ------------------------------------------------------------------------------------- wrappers
def wrapper(kind, cfg, dim, maxiter):
    def h(ctx):
        import mystic.scipy_optimize as so
        import mystic.differential_evolution as de
        w = L.World(ctx, dim, **CONFIGS[cfg])
        x0 = ctx.reals('x', dim)
        kw = dict(full_output=1, disp=0, maxiter=maxiter)
        if w.p is not None:
            kw['penalty'] = w.penalty
        if w.c is not None:
            kw['constraints'] = w.constraint
        if w.lo is not None:
            kw['bounds'] = list(zip(w.lo, w.hi))
        if kind == 'fmin':
            out = so.fmin(w.cost, list(x0), **kw)
        elif kind == 'fmin_powell':
            install_brent_contract(ctx)
            out = so.fmin_powell(w.cost, list(x0), **kw)
        else:
            stubs.ORACLE.override = FixedDraws()
            try:
                out = getattr(de, kind)(w.cost, list(x0), npop=4, **kw)
            finally:
                stubs.ORACLE.override = None
        xopt, fopt = L.vec(out[0]), L.scalar(out[1])
        obs = [('iterations<=maxiter', const(out[2] <= maxiter))]
        if not isinf(fopt):
            obs.append(('fopt-is-cost+penalty-at-xopt', w.energy_is(fopt, xopt)))
            obs.append(('xopt-was-evaluated', w.was_called_at(xopt)))
            obs.append(('xopt-feasible', w.feasible(xopt)))
            obs.append(('funcalls-is-number-of-cost-calls', const(out[3] == len(w.calls))))
        ctx.observe('fopt', fopt)
        return obs
    return h


STRATEGIES = ('Best1Exp', 'Best1Bin', 'Rand1Exp', 'RandToBest1Exp', 'Best2Exp', 'Rand2Exp', 'Rand1Bin', 'RandToBest1Bin',
              'Best2Bin', 'Rand2Bin')


def instances(tier, seed):
    out = []
    q = tier == 'quick'
    # decoration stack
    for kind in ('DE', 'DE2', 'NM', 'Powell'):
        for cfg in CONFIGS:
            out.append(Instance('decoration/%s/%s/dim=2' % (kind, cfg), decoration(kind, cfg, 2)))
    # DE steps
    if q:
        grid = [(False, 'Best1Bin', 'plain', 2, 4), (False, 'Rand1Exp', 'box+cons+pen', 1, 4), (True, 'Best1Bin', 'box+cons+pen', 1, 4),
                (False, 'Best1Bin', 'pen', 1, 4), (True, 'Rand1Exp', 'cons-inplace', 1, 4), (False, 'Best1Bin', 'reducer+pen', 1, 4)]
    else:
        grid = []
        for two in (False, True):
            for st in STRATEGIES:
                need = 6 if '2' in st else 4
                for cfg in (('plain', 'box+cons+pen') if st not in ('Best1Bin', 'Rand1Exp') else tuple(CONFIGS)):
                    for dim in ((1, 2) if cfg == 'plain' else (1,)):
                        grid.append((two, st, cfg, dim, need))
    for two, st, cfg, dim, NP in grid:
        for focus in range(NP):
            out.append(Instance('de-step/%s/%s/%s/dim=%d/NP=%d/focus=%d' % ('DE2' if two else 'DE', st, cfg, dim, NP, focus),
                                de_step(two, st, cfg, dim, NP, focus)))
    for two in (False, True):
        for cfg in (('plain', 'box', 'box+cons+pen') if q else tuple(CONFIGS)):
            out.append(Instance('de-gen0/%s/%s/dim=1' % ('DE2' if two else 'DE', cfg), de_gen0(two, cfg, 1, 4)))
    # Nelder-Mead
    for cfg in CONFIGS:
        for dim in ((1, 2) if (q and cfg in ('plain', 'cons')) or (not q) else (1,)):
            out.append(Instance('nm-step/%s/dim=%d' % (cfg, dim), nm_step(cfg, dim)))
        out.append(Instance('nm-start/%s/dim=1' % cfg, nm_start(cfg, 1, 1)))
    out.append(Instance('nm-step/plain/dim=2/adaptive', nm_step('plain', 2, True)))
    if not q:
        out.append(Instance('nm-step/plain/dim=3', nm_step('plain', 3)))
        out.append(Instance('nm-start/plain/dim=2', nm_start('plain', 2, 1)))
        out.append(Instance('nm-start/box+cons+pen/dim=2', nm_start('box+cons+pen', 2, 1)))
    # Powell
    for cfg in CONFIGS:
        out.append(Instance('powell/%s/dim=1/steps=3' % cfg, powell_steps(cfg, 1, 3), qtimeout=3000 if q else 20000))
    out.append(Instance('powell/plain/dim=2/steps=%d' % (2 if q else 3), powell_steps('plain', 2, 2 if q else 3)))
    if not q:
        out.append(Instance('powell/cons/dim=2/steps=3', powell_steps('cons', 2, 3)))
    # wrappers (tails)
    for kind in ('fmin', 'fmin_powell', 'diffev', 'diffev2'):
        for cfg in (('plain', 'box+cons+pen') if q else ('plain', 'pen', 'cons', 'box', 'box+cons+pen')):
            for mi in ((1,) if q else (0, 1, 2)):
                out.append(Instance('wrapper/%s/%s/maxiter=%d' % (kind, cfg, mi), wrapper(kind, cfg, 1, mi)))
    return out
