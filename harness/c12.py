"""C12 - symbolic rewriting preserves the solution set (translation validation).

Real code executed (concretely - the inputs are texts): symbolic.simplify/_simplify/_simplify1/_solve_zeros/equals/flip/merge,
_symbolic.solve/_solve_single/_solve_linear (sympy), symbolic.linear_symbolic/symbolic_bounds.
Deciding step: the input system and every returned case are translated by an INDEPENDENT interpreter (symex.expr2z3: Python
ast -> z3 reals) and z3 decides, over ALL evaluation points, the two inclusions
    strong(input) => weak(output)      and      strong(output) => weak(input)
where strong/weak tighten/relax every comparison by the margin m = 1e-9*(1+sum|x_i|) (equalities: exact / within m).
The margin only absorbs the 15-digit decimals sympy prints (0.333333333333333*x2); a flipped comparator, a dropped or
altered line, a wrong sign case or a wrong constant moves the solution set by far more and is a counterexample.
"""
import itertools
import random as _pyrandom
import z3
from symex.engine import Instance
from symex.values import Ctx, SBool
from symex import stubs
from symex.ob import CBool, const
from symex import expr2z3 as X

PROPERTY = 'C12'
LEVEL = 'translation_validation'
ASSUMPTIONS = [
    'evaluation points range over all reals (QF_NRA); floats and NaN outside the claim',
    'equivalence is decided up to the margin m = 1e-9*(1+sum|x_i|) (strong(A) => weak(B) both ways) because sympy prints 15 significant digits; '
    'points where an input divisor is within m of zero are excluded',
    'systems are generated from a grammar (<= 3 variables, <= 3 lines, six comparators, coefficient pool with negatives, fractions, 1e-7, 1e6, thirds; '
    'rational forms a/xj, xi*xj, xi/(xj-b)); the random test points simplify() draws come from a seeded stream (VERIF_SEED)',
    'the text -> z3 interpreter is validated each run against Python eval on the same texts (self-test instance)',
]
BOUNDS = {'quick': dict(systems=70, variables='<=3', lines='<=3'), 'thorough': dict(systems=700, variables='<=3', lines='<=3', seeds=3)}
BUDGET = {'quick': 1800, 'thorough': 3600}
MARGIN = 1e-9


def programs_count(agg):
    return len(agg)


class SeededDraws(object):
    def __init__(self, seed):
        self.r = _pyrandom.Random(seed)

    def random(self):
        return self.r.random()

    def randrange(self, n):
        return self.r.randrange(n)


def strong_weak(interp, text, m0):
    """(strong, weak) readings of a system of lines"""
    S, W = [], []
    for l in [l for l in text.strip().split('\n') if l.strip()]:
        lhs, c, rhs = X.split(l)
        a, b = interp.expr(lhs), interp.expr(rhs)
        m = m0 * (1 + interp.absmag(lhs) + interp.absmag(rhs))       # margin relative to the scale of this line's own terms
        if c in ('<', '<='):
            S.append(a <= b - m)
            W.append(a <= b + m)
        elif c in ('>', '>='):
            S.append(a >= b + m)
            W.append(a >= b - m)
        elif c in ('=', '=='):
            S.append(a == b)
            W.append(z3.And(a - b <= m, b - a <= m))
        else:
            S.append(z3.Or(a >= b + m, a <= b - m))
            W.append(z3.BoolVal(True))
    return (z3.And(*S) if S else z3.BoolVal(True)), (z3.And(*W) if W else z3.BoolVal(True))


def py_strong_weak(text, vals, m0):
    S, W = True, True
    for l in [l for l in text.strip().split('\n') if l.strip()]:
        r, a, b = X.py_eval_line(l, vals)
        if r is None:
            return None, None
        c = X.comparator(l)
        lhs_, _c, rhs_ = X.split(l)
        try:
            m = m0 * (1 + X.py_absmag(lhs_, vals) + X.py_absmag(rhs_, vals))
        except ZeroDivisionError:
            return None, None
        if c in ('<', '<='):
            S, W = S and a <= b - m, W and a <= b + m
        elif c in ('>', '>='):
            S, W = S and a >= b + m, W and a >= b - m
        elif c in ('=', '=='):
            S, W = S and a == b, W and abs(a - b) <= m
        else:
            S, W = S and abs(a - b) >= m, W
    return S, W


def equivalence(text, produce, variables, label):
    """produce(text) -> tuple of output systems (cases)"""
    def h(ctx):
        xs = [ctx.real(v) for v in variables]
        stubs.ORACLE.override = SeededDraws(int(getattr(ctx, 'seed', 0)) + sum(map(ord, text)) % 1000)
        try:
            outs = produce(text)
        except (SyntaxError, ZeroDivisionError, ValueError, TypeError, IndexError, NotImplementedError) as e:
            # the property speaks about the results simplify RETURNS; a rejected system yields nothing to compare
            ctx.note('%s: %r raised %s' % (label, text, type(e).__name__))
            return [('no-result-returned', const(True))]
        finally:
            stubs.ORACLE.override = None
        if isinstance(outs, str):
            outs = (outs,)
        outs = tuple(o for o in outs)
        ctx.note('%s: %r => %r' % (label, text, outs))
        if Ctx.mode == 'sym':
            env = dict((v, ctx.inputs[v]) for v in variables)
            I = X.Z3Interp(env)
            m = z3.RealVal(str(MARGIN)) * (1 + z3.Sum([z3.If(env[v] >= 0, env[v], -env[v]) for v in variables]))
            sS, wS = strong_weak(I, text, m)
            defined_in = z3.And(*[z3.Or(d.arg(0) >= m, d.arg(0) <= -m) for d in I.defined]) if I.defined else z3.BoolVal(True)
            sO, wO = [], []
            for o in outs:
                J = X.Z3Interp(env)
                s_, w_ = strong_weak(J, o, m)
                dj = z3.And(*J.defined) if J.defined else z3.BoolVal(True)
                sO.append(z3.And(s_, dj))
                wO.append(z3.And(w_, dj))
            sO = z3.Or(*sO) if sO else z3.BoolVal(False)
            wO = z3.Or(*wO) if wO else z3.BoolVal(False)
            obs = []
            fac = product_factors(text, variables)
            if fac:
                # products of two variables: the points where a variable factor vanishes are a separate obligation (recorded finding)
                nz = z3.And(*[z3.Or(env[v] >= m, env[v] <= -m) for v in fac])
                obs.append(('every-robust-solution-of-the-input-satisfies-the-output', SBool(z3.Implies(z3.And(defined_in, nz, sS), wO))))
                obs.append(('every-robust-solution-of-the-input-satisfies-the-output-where-a-variable-factor-vanishes', SBool(z3.Implies(z3.And(defined_in, z3.Not(nz), sS), wO))))
            else:
                obs.append(('every-robust-solution-of-the-input-satisfies-the-output', SBool(z3.Implies(z3.And(defined_in, sS), wO))))
            obs.append(('every-robust-solution-of-the-output-satisfies-the-input', SBool(z3.Implies(z3.And(defined_in, sO), wS))))
            if exact_arithmetic(text, outs):
                # every printed coefficient is exact: the solution sets must coincide exactly, boundary points included
                K = X.Z3Interp(env)
                S_exact = K.system(text)
                din = z3.And(*K.defined) if K.defined else z3.BoolVal(True)
                cases = []
                for o in outs:
                    J = X.Z3Interp(env)
                    c_ = J.system(o)
                    cases.append(z3.And(c_, z3.And(*J.defined) if J.defined else z3.BoolVal(True)))
                O_exact = z3.Or(*cases) if cases else z3.BoolVal(False)
                pre = z3.And(din, z3.And(*[env[v] != 0 for v in fac])) if fac else din
                obs.append(('exactly-the-same-points-boundary-included', SBool(z3.Implies(pre, S_exact == O_exact))))
            return obs
        vals = dict((v, float(x)) for v, x in zip(variables, xs))
        m = MARGIN * (1 + sum(abs(v) for v in vals.values()))
        sS, wS = py_strong_weak(text, vals, m)
        fac = product_factors(text, variables)
        names = ['every-robust-solution-of-the-input-satisfies-the-output', 'every-robust-solution-of-the-output-satisfies-the-input']
        if sS is None:
            return [(n_, CBool(True)) for n_ in names + (['every-robust-solution-of-the-input-satisfies-the-output-where-a-variable-factor-vanishes'] if fac else [])]
        so, wo = False, False
        for o in outs:
            s_, w_ = py_strong_weak(o, vals, m)
            if s_ is None:
                continue
            so, wo = so or s_, wo or w_
        obs = []
        if fac:
            nz = all(abs(vals[v]) >= m for v in fac)
            obs.append((names[0], CBool((not (nz and sS)) or wo)))
            obs.append((names[0] + '-where-a-variable-factor-vanishes', CBool((not ((not nz) and sS)) or wo)))
        else:
            obs.append((names[0], CBool((not sS) or wo)))
        obs.append((names[1], CBool((not so) or wS)))
        if exact_arithmetic(text, outs):
            ex = all(X.py_eval_line(l, vals)[0] for l in text.strip().split('\n') if l.strip())
            oo = any(all(X.py_eval_line(l, vals)[0] for l in o.strip().split('\n') if l.strip()) for o in outs)
            pre = all(vals[v] != 0 for v in fac) if fac else True
            obs.append(('exactly-the-same-points-boundary-included', CBool((not pre) or (bool(ex) == bool(oo)))))
        return obs
    return h


def has_long_decimals(outs):
    import re
    for o in outs:
        for num in re.findall(r'\d+\.\d+|\.\d+', o):
            if len(num.replace('.', '').lstrip('0')) >= 12:
                return True
    return False


def exact_arithmetic(text, outs):
    """all numeric literals of input and outputs are small dyadic rationals (integers, halves, quarters, eighths): sympy's decimal
    arithmetic and printing are exact for them, so the rewriting can be compared without a margin"""
    import re
    if has_long_decimals(outs):
        return False
    for t in (text,) + tuple(outs):
        for num in re.findall(r'(?<![A-Za-z_\d])(\d+\.?\d*(?:[eE][-+]?\d+)?|\.\d+)', t):
            try:
                v = float(num)
            except ValueError:
                return False
            if abs(v) > 4096 or (v * 8) != int(v * 8) or 'e' in num.lower():
                return False
    return True


def product_factors(text, variables):
    import re
    out = set()
    for a, b in re.findall(r'([A-Za-z_]\w*)\s*\*\s*([A-Za-z_]\w*)', text):
        if a in variables and b in variables:
            out.add(a)
            out.add(b)
    return sorted(out)


def do_simplify(variables):
    def f(text):
        import mystic.symbolic as ms
        kw = {} if variables[0].startswith('x') and variables[0][1:].isdigit() else dict(variables=list(variables))
        return ms.simplify(text, all=True, **kw)
    return f


def do_solve(text):
    import mystic.symbolic as ms
    return ms.solve(text)


def matrix_text(A, b, G, h):
    def f(_):
        import mystic.symbolic as ms
        return ms.linear_symbolic(A=A, b=b, G=G, h=h)
    return f


def bounds_text(lo, hi):
    def f(_):
        import mystic.symbolic as ms
        return ms.symbolic_bounds(list(lo), list(hi))
    return f


# ----------------------------------------------------------------------------- generators
COEF = ['1', '-1', '2', '-3', '0.5', '-1.5', '4', '1e-7', '1e6', '-2.5']
CONST = ['0', '1', '-2', '3', '7', '-0.5', '10.05', '2e-7', '-4', '20.04']
CMP = ['<', '<=', '>', '>=', '=', '!=']


def lin(rng, vars_, k):
    terms = []
    for v in rng.sample(vars_, k):
        c = rng.choice(COEF)
        terms.append(('%s*%s' % (c, v)) if c not in ('1', '-1') else (('-' if c == '-1' else '') + v))
    return ' + '.join(terms).replace('+ -', '- ')


def gen_line(rng, vars_, kind):
    c = rng.choice(CMP)
    if kind == 'linear':
        k = rng.randint(1, len(vars_))
        lhs = lin(rng, vars_, k)
        rhs = rng.choice(CONST)
        free = [v for v in vars_ if v not in lhs.replace('*', ' ').replace('-', ' ').split()]
        if rng.random() < 0.4 and free:          # (a variable on both sides may cancel identically: that degenerate case is a fixed instance)
            rhs = lin(rng, free, 1) + ' + ' + rhs
        return '%s %s %s' % (lhs, c, rhs.replace('+ -', '- '))
    a, b = rng.sample(vars_, 2) if len(vars_) > 1 else (vars_[0], vars_[0])
    c = rng.choice(['<', '<=', '>', '>='])
    form = rng.choice(['ratio', 'product', 'shifted'])
    if form == 'ratio':
        return '%s/%s %s %s' % (a, b, c, rng.choice(['3', '-2', '0.5']))
    if form == 'product':
        return '%s*%s %s %s' % (a, b, c, rng.choice(['2', '-1', '4']))
    return '%s/(%s - %s) %s %s' % (a, b, rng.choice(['1', '2']), c, rng.choice(['2', '-3']))


def systems(seed, count):
    rng = _pyrandom.Random(1000 + seed)
    out = []
    seen = set()
    while len(out) < count:
        nv = rng.choice([1, 2, 2, 3, 3])
        vars_ = ['x%d' % i for i in range(nv)]
        nl = rng.choice([1, 1, 2, 2, 3])
        kind = 'linear' if (rng.random() < 0.8 or nv < 2) else 'rational'
        lines = [gen_line(rng, vars_, kind if i == 0 else 'linear') for i in range(nl if kind == 'linear' else 1)]
        text = '\n'.join(lines)
        if text in seen:
            continue
        seen.add(text)
        used = sorted(set(v for v in vars_ if v in text))
        if not used:
            continue
        out.append((text, vars_))
    return out


FIXED = [
    ("x0 - 2*x1 <= 3\n-x1 + x2 > 1", ['x0', 'x1', 'x2']),
    ("x0/x1 <= 3", ['x0', 'x1']),
    ("-3*x0 + 1.5*x1 < x2 - 7", ['x0', 'x1', 'x2']),
    ("x0*x1 > 2", ['x0', 'x1']),
    ("x0 = 4*x1 - x2\nx1 + x2 >= 2e-7", ['x0', 'x1', 'x2']),
    ("x1/(x0-1) >= 2", ['x0', 'x1']),
    ("2*x0 != 3*x1 + 1", ['x0', 'x1']),
    ("-2*x0 + x1 < 4", ['x0', 'x1']),
    ("3 - 4*x0 >= x1", ['x0', 'x1']),
    ("2*x0 - x1 <= 10.05", ['x0', 'x1']),
    ("x0 >= 0\nx0 <= 0\nx1 > 3", ['x0', 'x1']),
    ("x0 >= 1\nx0 <= 5", ['x0']),
    ("x0 > 2\nx0 > 4", ['x0']),
    ("a + 2*b <= 4\nb - a >= 1", ['a', 'b']),
    ("alpha - 3*beta > 2", ['alpha', 'beta']),
    ("x0 = x0 - 2\nx1 <= 1", ['x0', 'x1']),
]

LINEAR_SOLVE = [
    ("x0 + x1 = 20.04\nx0 - x1 = 0.5", ['x0', 'x1']),
    ("x0 + 2*x1 - x2 = 3\nx1 + x2 = 1", ['x0', 'x1', 'x2']),
    ("2*x0 = 3", ['x0']),
    ("x0 - x1 = 0\nx1 - x2 = 1", ['x0', 'x1', 'x2']),
    ("0.5*x0 + 4*x1 = -2\n-x0 + x1 = 10.05", ['x0', 'x1']),
]

MATRICES = [
    (dict(A=[[1., 2.], [0., 1.]], b=[3., 4.], G=[[1., -1.]], h=[0.5]), "x0 + 2*x1 = 3\nx1 = 4\nx0 - x1 <= 0.5", ['x0', 'x1']),
    (dict(A=None, b=None, G=[[-1., 0., 2.], [0.5, 1., 0.]], h=[0., -3.]), "-x0 + 2*x2 <= 0\n0.5*x0 + x1 <= -3", ['x0', 'x1', 'x2']),
    (dict(A=[[3., -1., 0.5]], b=[1e-7], G=None, h=None), "3*x0 - x1 + 0.5*x2 = 1e-7", ['x0', 'x1', 'x2']),
]

BOUNDS_ = [([0., -1.], [1., 4.]), ([None, 2.], [3., None]), ([-2.5], [-2.5]), ([1e-7, -1e6], [1e6, 1e-7]), ([1000., 0.], [1000.0078125, 7.450580596923828e-09])]      # (last: narrow, not degenerate)


def interpreter_selftest():
    """the text -> z3 interpreter agrees with Python eval (replay-mode run; 200 random points over the fixed texts)"""
    def h(ctx):
        if Ctx.mode == 'sym':
            return [('interpreter-validated-in-replay-mode', const(True))]
        rng = _pyrandom.Random(7)
        ok = True
        for text, vars_ in FIXED + LINEAR_SOLVE:
            for line in text.split('\n'):
                for _ in range(8):
                    vals = dict((v, rng.choice([-3.0, -1.0, 0.0, 0.5, 2.0, 7.0, rng.uniform(-5, 5)])) for v in vars_)
                    r, a, b = X.py_eval_line(line, vals)
                    I = X.Z3Interp()
                    rel = I.line(line)
                    sub = [(I.var(v), z3.RealVal(str(__import__('fractions').Fraction(x)))) for v, x in vals.items()]
                    if r is None:
                        continue
                    zr_ = z3.simplify(z3.substitute(rel, *sub))
                    if not (z3.is_true(zr_) or z3.is_false(zr_)) or z3.is_true(zr_) != bool(r):
                        # float evaluation may differ from the exact one only at exact ties; recheck exactly
                        ok = ok and False
        return [('text-interpreter-agrees-with-python-eval', const(ok))]
    return h


def instances(tier, seed):
    q = tier == 'quick'
    out = [Instance('interpreter-selftest', interpreter_selftest(), selftest=True)]
    for text, vars_ in FIXED:
        out.append(Instance('simplify/fixed/%s' % text.replace('\n', ';').replace(' ', ''), equivalence(text, do_simplify(vars_), vars_, 'simplify'), qtimeout=30000,
                            context_free_first=False))
    n = 55 if q else 650
    for k, (text, vars_) in enumerate(systems(seed if not q else 0, n)):
        out.append(Instance('simplify/gen%03d/%s' % (k, text.replace('\n', ';').replace(' ', '')[:60]), equivalence(text, do_simplify(vars_), vars_, 'simplify'), qtimeout=120000))
    for text, vars_ in LINEAR_SOLVE:
        out.append(Instance('solve/%s' % text.replace('\n', ';').replace(' ', ''), equivalence(text, do_solve, vars_, 'solve'), qtimeout=30000))
    for kw, text, vars_ in MATRICES:
        out.append(Instance('linear_symbolic/%s' % text.replace('\n', ';').replace(' ', ''), equivalence(text, matrix_text(**kw), vars_, 'linear_symbolic'), qtimeout=30000))
    for lo, hi in BOUNDS_:
        vars_ = ['x%d' % i for i in range(len(lo))]
        lines = []
        for i, (a, b) in enumerate(zip(lo, hi)):
            if a is not None:
                lines.append('x%d >= %r' % (i, a))
            if b is not None:
                lines.append('x%d <= %r' % (i, b))
        out.append(Instance('symbolic_bounds/%s..%s' % (lo, hi), equivalence('\n'.join(lines), bounds_text(lo, hi), vars_, 'symbolic_bounds'), qtimeout=30000))
    return out
