"""C07 - results depend only on configuration and seed, not on call order or schedule.

Real code executed: every Set* configuration method of AbstractSolver / DE / NM / Powell (SetInitialPoints,
SetRandomInitialPoints, SetStrictRanges, SetConstraints, SetPenalty, SetEvaluationLimits, SetGenerationMonitor,
SetEvaluationMonitor, SetTermination, SetReducer, SetObjective), the deferred decoration (_update_objective /
_bootstrap_objective), then real Steps; DifferentialEvolutionSolver2._Step with SetMapper(map) for maps that evaluate
their work items in every order (and interleave a foreign callback) while honouring the map contract.
"The same seed": the random draws of the reference run are recorded and replayed for every other run; a run that
consumes randomness differently is itself a counterexample.
NOT claimed: real thread/process maps (preemption inside the cost), ensemble step-wise vs run-to-completion equality.
"""
import itertools
from symex.engine import Instance
from symex.values import Ctx
from symex import stubs
from symex.ob import (eq, ne, le, lt, ge, gt, And, Or, Not, Implies, Iff, const, ite, absv, maxv, minv, R,
                      sumv, isinf, veq)
from harness import solverlib as L
from harness import steps as S
from harness import c06

PROPERTY = 'C07'
LEVEL = 'model_checking'
ASSUMPTIONS = [
    'floats modelled as exact reals; the cost, penalty and constraints are deterministic uninterpreted functions',
    'same seed = the recorded draws of the reference run are replayed in the same order; consuming a different number/kind of draws is reported',
    'setter subsets of size <= 4 (all k! orders); arguments symbolic; two real steps afterwards',
    'maps: every evaluation order of the work items (enumerated permutations), optionally interleaved with a foreign callback; results returned in input order '
    '(the map contract); threads/processes and ensembles are outside the claim',
]
BOUNDS = {'quick': dict(setters='<=3 (6 orders)', map_permutations=24, steps=2), 'thorough': dict(setters='<=4 (24 orders)', map_permutations=24, steps=2)}
BUDGET = {'quick': 1800, 'thorough': 3600}

SETTERS = ('SetInitialPoints', 'SetStrictRanges', 'SetConstraints', 'SetPenalty', 'SetEvaluationLimits', 'SetGenerationMonitor', 'SetTermination')


def configured_run(ctx, kind, dim, order, args, tape, replay, steps, at):
    from mystic.monitors import Monitor
    w = args['w']
    w.calls, w.values, w.callbacks = [], [], []
    s = S.make_solver(kind, dim)
    stubs.ORACLE.tape, stubs.ORACLE.replay, stubs.ORACLE.replay_mismatch = tape, replay, False
    if at is not None:
        at.replay = list(at.tape) if replay is not None else None
        if replay is None:
            at.tape = []
    try:
        for name in order:
            if name == 'SetInitialPoints':
                s.SetInitialPoints(list(args['x0']))
            elif name == 'SetStrictRanges':
                s.SetStrictRanges(L.arr(w.lo), L.arr(w.hi))
            elif name == 'SetConstraints':
                s.SetConstraints(w.constraint)
            elif name == 'SetPenalty':
                s.SetPenalty(w.penalty)
            elif name == 'SetEvaluationLimits':
                s.SetEvaluationLimits(L.BIG, L.BIG)
            elif name == 'SetGenerationMonitor':
                s.SetGenerationMonitor(Monitor())
            elif name == 'SetTermination':
                s.SetTermination(L.never())
        if 'SetTermination' not in order:
            s.SetTermination(L.never())
        if 'SetEvaluationLimits' not in order:
            s.SetEvaluationLimits(L.BIG, L.BIG)
        if 'SetInitialPoints' not in order:
            s.SetInitialPoints(list(args['x0']))
        s.SetEvaluationMonitor(Monitor())
        s.SetObjective(w.cost)
        for g in range(steps):
            if kind in ('DE', 'DE2'):
                s.Step(strategy=S.focus_strategy('Best1Bin', -1))
            else:
                s.Step()
        leftover = len(replay) if replay is not None else 0
        mismatch = stubs.ORACLE.replay_mismatch
    finally:
        stubs.ORACLE.tape, stubs.ORACLE.replay = None, None
    st = c06.full_state(s)
    st['ncalls'] = len(w.calls)
    st['calls'] = [list(c) for c in w.calls]
    return st, leftover, mismatch


def setter_orders(kind, dim, subset, steps=2):
    def h(ctx):
        at = None
        if kind == 'Powell':
            at = c06.AlphaTape()
            c06.install_brent(ctx, at)
        w = L.World(ctx, dim, box='SetStrictRanges' in subset, cons=('pure' if 'SetConstraints' in subset else None), pen='SetPenalty' in subset)
        args = dict(w=w, x0=ctx.reals('x', dim))
        if w.lo is not None:
            # the initial guess lies inside the box (SetInitialPoints before SetStrictRanges would otherwise be clipped later: same result, more paths)
            ctx.assume(w.inside(args['x0']))
        orders = list(itertools.permutations(subset))
        tape = []
        ref, _, _ = configured_run(ctx, kind, dim, orders[0], args, tape, None, steps, at)
        obs = []
        for order in orders[1:]:
            st, leftover, mismatch = configured_run(ctx, kind, dim, order, args, None, list(tape), steps, at)
            tag = '>'.join(n.replace('Set', '') for n in order)
            obs.append(('same-random-consumption[%s]' % tag, const(leftover == 0 and not mismatch)))
            same = c06.same_state(ref, st, tag)
            obs.append(('same-trajectory[%s]' % tag, And(*[o for _, o in same])))
            obs.append(('same-evaluation-sequence[%s]' % tag, And(const(st['ncalls'] == ref['ncalls']), And(*[veq(a, b) for a, b in zip(st['calls'], ref['calls'])]))))
        ctx.observe('bestEnergy', ref['bestE'])
        return obs
    return h


class SequencedDraws(object):
    """concrete draws that differ from call to call (so that consuming them in another order changes who gets what)"""
    VALUES = (0.95, 0.2, 0.6, 0.05, 0.8, 0.4)

    def __init__(self):
        self.k = 0

    def random(self):
        self.k += 1
        return self.VALUES[self.k % len(self.VALUES)]

    def randrange(self, n):
        self.k += 1
        return self.k % n


def seq_strategy(name, draws):
    import mystic.strategy as st
    real = getattr(st, name)

    def strategy(inst, candidate):
        stubs.ORACLE.override = draws
        try:
            return real(inst, candidate)
        finally:
            stubs.ORACLE.override = None
    strategy.__name__ = name
    return strategy


def map_orders(dim, perm, interleave, cfg):
    """DE2 under a map that evaluates the work items in the order `perm` (results returned in input order)"""
    def h(ctx):
        from mystic.monitors import Monitor
        w = L.World(ctx, dim, **S.CONFIGS[cfg])
        x0 = ctx.reals('x', dim)
        foreign = []

        def permuted_map(func, arglist, **kwds):
            items = list(arglist)
            res = [None] * len(items)
            for k in perm:
                if k < len(items):
                    if interleave:
                        foreign.append(len(w.calls))        # something else runs between two evaluations
                    res[k] = func(items[k])
            for k in range(len(items)):
                if res[k] is None:
                    res[k] = func(items[k])
            return res

        def run(mapper, tape, replay):
            w.calls, w.values, w.callbacks = [], [], []
            s = S.de_class(True)(dim, 4)
            L.configure(s, w)
            if mapper is not None:
                s.SetMapper(mapper)
            for i in range(s.nPop):
                s.population[i] = [x0[j] + i for j in range(dim)]
            stubs.ORACLE.tape, stubs.ORACLE.replay, stubs.ORACLE.replay_mismatch = tape, replay, False
            draws = SequencedDraws()
            try:
                for g in range(2):
                    s.Step(strategy=seq_strategy('Best1Bin', draws))
            finally:
                stubs.ORACLE.tape, stubs.ORACLE.replay = None, None
            pop, en, b, be = L.state_of(s)
            return dict(pop=pop, en=en, best=b, bestE=be, evals=s.evaluations, gens=s.generations,
                        step_x=[L.vec(v) for v in s._stepmon._x], step_y=[L.scalar(v) for v in s._stepmon._y], eval_x=[], eval_y=[]), set(map(tuple, [[id(v) for v in c] for c in w.calls])), len(w.calls)
        tape = []
        ref, refcalls, nref = run(None, tape, None)
        st, calls, n = run(permuted_map, None, list(tape))
        same = c06.same_state(ref, st, 'map')
        obs = [('same-trajectory-as-serial-map', And(*[o for n_, o in same if 'evaluation monitor' not in n_ and 'evaluation counter' not in n_])),
               ('same-number-of-cost-calls', const(n == nref)),
               ('same-evaluation-count', eq(ref['evals'], st['evals']))]
        return obs
    return h


def instances(tier, seed):
    q = tier == 'quick'
    out = []
    subsets3 = [('SetInitialPoints', 'SetStrictRanges', 'SetConstraints'), ('SetInitialPoints', 'SetPenalty', 'SetEvaluationLimits'),
                ('SetStrictRanges', 'SetGenerationMonitor', 'SetTermination'), ('SetInitialPoints', 'SetStrictRanges', 'SetPenalty'),
                ('SetConstraints', 'SetPenalty', 'SetStrictRanges')]
    subsets4 = [('SetInitialPoints', 'SetStrictRanges', 'SetConstraints', 'SetPenalty'), ('SetInitialPoints', 'SetEvaluationLimits', 'SetGenerationMonitor', 'SetTermination'),
                ('SetStrictRanges', 'SetConstraints', 'SetEvaluationLimits', 'SetTermination')]
    for kind in ('NM', 'Powell', 'DE', 'DE2'):
        de = kind in ('DE', 'DE2')
        for sub in ((subsets3[1], subsets3[3]) if (q and de) else (subsets3[:2] if (q and kind != 'NM') else subsets3)):
            steps = 1 if (de and ('SetStrictRanges' in sub or q)) else 2
            out.append(Instance('setter-orders/%s/%s/steps=%d' % (kind, '+'.join(n.replace('Set', '') for n in sub), steps), setter_orders(kind, 1, sub, steps), qtimeout=6000))
        if not q:
            for sub in subsets4:
                if kind in ('DE', 'DE2') and sub != subsets4[1]:
                    continue
                out.append(Instance('setter-orders/%s/%s' % (kind, '+'.join(n.replace('Set', '') for n in sub)), setter_orders(kind, 1, sub), qtimeout=6000))
    perms = list(itertools.permutations(range(4)))
    for pi, perm in enumerate(perms if not q else perms[1::4]):
        for inter in (False, True):
            if q and inter and pi % 2:
                continue
            out.append(Instance('de2-map/order=%s%s' % (''.join(map(str, perm)), '/interleaved' if inter else ''), map_orders(1, perm, inter, 'plain')))
    if not q:
        out.append(Instance('de2-map/order=3210/box+cons+pen', map_orders(1, (3, 2, 1, 0), False, 'box+cons+pen')))
    out.append(Instance('de2-map/order=3210/pen', map_orders(1, (3, 2, 1, 0), False, 'pen')))
    return out
