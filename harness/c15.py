"""C15 - penalty methods are zero on the feasible set and follow their formulas.

Real code executed: mystic.penalty.* (all nine closures incl. iter/clear/store/stored/error),
mystic.coupler.additive, mystic.constraints.with_penalty / as_penalty.
Symbolic: condition value v (per call), multiplier k>0, growth h>0, decorated value fx, stored values.
Enumerated: iteration count n (0..N), iter/clear/store programs, nesting depth <= 2.
"""
import itertools
from symex.engine import Instance
from symex.ob import (eq, ne, le, lt, ge, gt, And, Or, Not, Implies, Iff, const, ite, absv, maxv, minv, R,
                      log, sqrt, isinf, veq)

PROPERTY = 'C15'
LEVEL = 'model_checking'
ASSUMPTIONS = [
    'floats modelled as exact reals; NaN outside the claim',
    'k > 0 and h > 0 (the documented multiplier / growth factor); finite unless stated (uniform_* also with k=inf)',
    'condition stub returns an arbitrary real (or raises ZeroDivisionError); decorated function returns an arbitrary real',
    'log is an uninterpreted function with log(1)=0 and sign facts (barrier_inequality formula compares like with like)',
    'barrier_inequality is judged against its own documented formula (it defines a non-zero term on the feasible side)',
]
BOUNDS = {'quick': dict(iterations='0..2', programs='<=3 ops, all types, k,h symbolic; Lagrange types <=6/5 ops with k=3,h=2', nesting=2),
          'thorough': dict(iterations='0..4', programs='<=4 ops, all types, k,h symbolic; Lagrange types <=7/6 ops with k=3,h=2', nesting=3)}
BUDGET = {'quick': 1800, 'thorough': 1800}

EQ = ('quadratic_equality', 'linear_equality', 'uniform_equality', 'lagrange_equality')
INEQ = ('quadratic_inequality', 'linear_inequality', 'uniform_inequality', 'lagrange_inequality', 'barrier_inequality')


def _pow(h, n):
    r = R(1)
    for _ in range(n):
        r = r * h
    return r


def _expected_added(ptype, v, k, h, n):
    """documented penalty term for n iterations and no stored history (None = infinite)"""
    pk = k * _pow(h, n)
    if ptype == 'quadratic_equality':
        return pk * v * v
    if ptype == 'linear_equality':
        return pk * absv(v)
    if ptype == 'uniform_equality':
        return ite(ne(v, 0), pk, R(0))
    if ptype == 'uniform_inequality':
        return ite(gt(v, 0), pk, R(0))
    if ptype == 'quadratic_inequality':
        m = maxv(R(0), v)
        return R(2) * pk * m * m
    if ptype == 'linear_inequality':
        return R(2) * pk * maxv(R(0), v)
    raise KeyError(ptype)


def basic(ptype, n):
    def h(ctx):
        import mystic.penalty as mp
        v, k, hh, fx = ctx.real('v'), ctx.real('k'), ctx.real('h'), ctx.real('fx')
        ctx.assume(gt(k, 0))
        ctx.assume(gt(hh, 0))
        seen = []

        def cond(x):
            seen.append(x)
            return v

        def base(x):
            return fx
        pen = getattr(mp, ptype)(cond, k=k, h=hh)(base)
        for _ in range(n):
            pen.iter()
        x0 = [0.0]
        out = pen(x0)
        err = pen.error(x0)
        obs = []
        satisfied = eq(v, 0) if ptype in EQ else le(v, 0)
        if ptype == 'barrier_inequality':
            if isinf(out):
                # documented: infinite barrier where violated (and log(0) at the boundary)
                obs.append(('barrier-inf-only-if-not-interior', ge(v, 0)))
            else:
                obs.append(('barrier-finite-implies-interior', lt(v, 0)))
                pk = R(2) * k * _pow(hh, n)
                # out = fx - log(-v)/pk   <=>  (out - fx)*pk = -log(-v)
                obs.append(('formula', eq((out - fx) * pk, R(0) - log(R(0) - v))))
        else:
            obs.append(('no-penalty-where-satisfied', Implies(satisfied, eq(out, fx))))
            obs.append(('positive-where-violated', Implies(Not(satisfied), gt(out, fx))))
            if ptype.startswith('lagrange'):
                pk = k * _pow(hh, n)
                m = v if ptype == 'lagrange_equality' else maxv(R(0), v)
                obs.append(('formula', eq(out, fx + pk * m * m)))      # no stored history -> multiplier 0
            else:
                obs.append(('formula', eq(out, fx + _expected_added(ptype, v, k, hh, n))))
        # error(x) = violation magnitude
        mag = absv(v) if ptype in EQ else maxv(R(0), v)
        obs.append(('error-is-violation-magnitude', eq(err, mag)))
        obs.append(('iteration-count', const(pen.iteration() == n)))
        obs.append(('ptype', const(pen.ptype == ptype)))
        return obs
    return h


def uniform_inf(ptype):
    """default k=inf for the uniform types"""
    def h(ctx):
        import mystic.penalty as mp
        v, fx = ctx.real('v'), ctx.real('fx')
        pen = getattr(mp, ptype)(lambda x: v)(lambda x: fx)
        out = pen([0.0])
        violated = ne(v, 0) if ptype == 'uniform_equality' else gt(v, 0)
        if isinf(out):
            return [('inf-only-if-violated', violated), ('positive', const(out > 0))]
        return [('finite-implies-satisfied', Not(violated)), ('value', eq(out, fx))]
    return h


def zero_division(ptype):
    def h(ctx):
        import mystic.penalty as mp
        fx = ctx.real('fx')

        def cond(x):
            raise ZeroDivisionError('float division by zero')
        pen = getattr(mp, ptype)(cond)(lambda x: fx)
        out = pen([1.0])
        err = pen.error([1.0])
        return [('zero-division-gives-inf', const(isinf(out) and out > 0)), ('error-inf', const(isinf(err) and err > 0))]
    return h


def real_division(ptype):
    """the condition really divides by a symbolic coordinate: 1/x0 - 1"""
    def h(ctx):
        import mystic.penalty as mp
        x0, fx = ctx.real('x0'), ctx.real('fx')
        pen = getattr(mp, ptype)(lambda x: 1.0 / x[0] - 1.0, k=3.0, h=2.0)(lambda x: fx)
        out = pen([x0])
        if isinf(out):
            if ptype == 'barrier_inequality':
                return [('inf-case', Or(eq(x0, 0), le(x0, 1)))]
            return [('inf-only-at-zero-division', eq(x0, 0))]
        return [('finite-implies-defined', ne(x0, 0))]
    return h


# ---- iteration-state programs: iter()/iter(i)/clear()/store() touch only the iteration state
OPS = ('iter', 'iter2', 'clear', 'store', 'call')


def program(ptype, prog, nested, concrete_kh=False):
    def h(ctx):
        import mystic.penalty as mp
        fx = ctx.real('fx')
        if concrete_kh:
            k, hh = R(3.0), R(2.0)
        else:
            k, hh = ctx.real('k'), ctx.real('h')
            ctx.assume(gt(k, 0))
            ctx.assume(gt(hh, 0))
        vals = []

        def cond(x):
            v = ctx.real('v%d' % len(vals))
            vals.append(v)
            return v
        inner_vals = []

        def cond2(x):
            v = ctx.real('w%d' % len(inner_vals))
            inner_vals.append(v)
            return v
        base = lambda x: fx
        inner = None
        if nested:
            inner = mp.quadratic_equality(cond2, k=k, h=hh)(base)
            pen = getattr(mp, ptype)(cond, k=k, h=hh)(inner)
        else:
            pen = getattr(mp, ptype)(cond, k=k, h=hh)(base)
        n = 0
        stored = {}
        obs = []
        x0 = [0.0]
        for j, op in enumerate(prog):
            if op == 'iter':
                pen.iter(); n += 1
            elif op == 'iter2':
                pen.iter(2); n = 2
            elif op == 'clear':
                pen.clear(); n = 0; stored = {}
            elif op == 'store':
                before = len(vals)
                pen.store(x0)
                if ptype.startswith('lagrange'):
                    stored[n] = vals[before]
            elif op == 'call':
                nv, nw = len(vals), len(inner_vals)
                out = pen(x0)
                v = vals[nv]
                innerval = fx
                if nested and len(inner_vals) > nw:     # (barrier returns inf without calling the inner function)
                    w = inner_vals[nw]
                    innerval = fx + k * _pow(hh, n) * w * w
                obs.append(('call-evaluates-condition-once@%d' % j, const(len(vals) == nv + 1)))
                if ptype.startswith('lagrange'):
                    beta = R(0); kk = k
                    for i in range(n):
                        y = stored.get(i, R(0))
                        if ptype == 'lagrange_equality':
                            beta = beta + R(2) * kk * y
                        else:
                            # max(-beta/(2k), y) * 2k  ==  max(-beta, 2k*y)   (k > 0): division-free oracle
                            beta = beta + maxv(R(0) - beta, R(2) * kk * y)
                        kk = kk * hh
                    if ptype == 'lagrange_equality':
                        exp = kk * v * v + beta * v + innerval
                        obs.append(('lagrange-formula@%d' % j, eq(out, exp)))
                    else:
                        # mpf = max(-beta/(2kk), v);   2kk*mpf = max(-beta, 2kk*v) =: t ;  kk*mpf^2 + beta*mpf = (t*t/4 + beta*t/2)/kk
                        t = maxv(R(0) - beta, R(2) * kk * v)
                        obs.append(('lagrange-formula@%d' % j, eq((out - innerval) * R(4) * kk, t * t + R(2) * beta * t)))
                elif ptype == 'barrier_inequality':
                    if isinf(out):
                        obs.append(('barrier-inf@%d' % j, ge(v, 0)))
                    else:
                        obs.append(('barrier-formula@%d' % j, eq((out - innerval) * R(2) * k * _pow(hh, n), R(0) - log(R(0) - v))))
                else:
                    obs.append(('formula@%d' % j, eq(out, innerval + _expected_added(ptype, v, k, hh, n))))
            obs.append(('iteration@%d' % j, const(pen.iteration() == n)))
            if nested:
                obs.append(('nested-iteration@%d' % j, const(inner.iteration() == n)))
            if ptype.startswith('lagrange'):
                st = pen.stored()
                want = [stored.get(i, 0.0) for i in range(max(stored) + 1)] if stored else []
                obs.append(('stored@%d' % j, veq(st, want) if len(st) == len(want) else const(False)))
        return obs
    return h


def stacked(p1, p2):
    """two penalties stacked on one function add"""
    def h(ctx):
        import mystic.penalty as mp
        v1, v2, k, hh, fx = ctx.real('v1'), ctx.real('v2'), ctx.real('k'), ctx.real('h'), ctx.real('fx')
        ctx.assume(gt(k, 0)); ctx.assume(gt(hh, 0))
        inner = getattr(mp, p2)(lambda x: v2, k=k, h=hh)(lambda x: fx)
        pen = getattr(mp, p1)(lambda x: v1, k=k, h=hh)(inner)
        pen.iter()
        out = pen([0.0])
        exp = fx + _expected_added(p1, v1, k, hh, 1) + _expected_added(p2, v2, k, hh, 1)
        e = pen.error([0.0])
        m1 = absv(v1) if p1 in EQ else maxv(R(0), v1)
        m2 = absv(v2) if p2 in EQ else maxv(R(0), v2)
        return [('stacked-add', eq(out, exp)), ('rms-error', And(ge(e, 0), eq(e * e, m1 * m1 + m2 * m2)))]
    return h


def additive_coupler():
    def h(ctx):
        from mystic.coupler import additive
        from mystic.constraints import with_penalty, as_penalty
        import mystic.penalty as mp
        x = ctx.reals('x', 2)
        f = ctx.ufunc('f', 2)
        p = ctx.ufunc('p', 2)
        g = additive(lambda z: p(z))(lambda z: f(z))
        out = g(list(x))
        obs = [('additive', eq(out, f(x) + p(x)))]
        k = ctx.real('k'); ctx.assume(gt(k, 0))
        c = ctx.ufunc('c', 2)
        wp = with_penalty(mp.quadratic_inequality, k=k, h=2.0)(lambda z: c(z))
        obs.append(('with_penalty', eq(wp(list(x)), R(2) * k * maxv(R(0), c(x)) * maxv(R(0), c(x)))))
        return obs
    return h


def instances(tier, seed):
    N = 2 if tier == 'quick' else 4
    out = []
    for p in EQ + INEQ:
        for n in range(N + 1):
            out.append(Instance('basic/%s/n=%d' % (p, n), basic(p, n)))
        out.append(Instance('zero-division/%s' % p, zero_division(p)))
        out.append(Instance('real-division/%s' % p, real_division(p)))
    for p in ('uniform_equality', 'uniform_inequality'):
        out.append(Instance('uniform-k-inf/%s' % p, uniform_inf(p)))
    L = 3 if tier == 'quick' else 4
    progs = []
    for l in range(1, L + 1):
        for pr in itertools.product(('iter', 'iter2', 'clear', 'store', 'call'), repeat=l - 1):
            progs.append(tuple(pr) + ('call',))
    if tier == 'thorough':
        progs += [('iter', 'call', 'store', 'iter', 'call'), ('store', 'iter', 'call', 'clear', 'call'),
                  ('store', 'iter', 'store', 'iter', 'call')]
    for p in EQ + INEQ:
        for pr in progs:
            for nested in ((False, True) if (tier == 'thorough' or len(pr) <= 2 or p.startswith('lagrange')) else (False,)):
                out.append(Instance('program/%s/%s%s' % (p, '-'.join(pr), '/nested' if nested else ''), program(p, pr, nested)))
    # the Lagrange types carry a stored multiplier history: deeper programs (calls also in the middle)
    seen = set(progs)
    for p in ('lagrange_equality', 'lagrange_inequality'):
        LL = (6 if p == 'lagrange_equality' else 5) if tier == 'quick' else (7 if p == 'lagrange_equality' else 6)
        for l in range(L + 1, LL + 1):
            for pr in itertools.product(('iter', 'store', 'clear', 'call'), repeat=l - 1):
                pr = tuple(pr) + ('call',)
                if pr in seen or 'store' not in pr or 'iter' not in pr:
                    continue
                if any(pr[i] == pr[i + 1] == 'clear' for i in range(len(pr) - 1)):
                    continue
                out.append(Instance('program/%s/%s/k=3,h=2' % (p, '-'.join(pr)), program(p, pr, False, True)))
    plain = [p for p in EQ + INEQ if not p.startswith('lagrange') and p != 'barrier_inequality']
    pairs = list(itertools.product(plain, repeat=2))
    if tier == 'quick':
        pairs = pairs[::4]
    for a, b in pairs:
        out.append(Instance('stacked/%s+%s' % (a, b), stacked(a, b)))
    out.append(Instance('couplers/additive+with_penalty', additive_coupler()))
    return out
