"""C05 - stopping discipline: limits, termination and exit requests are honoured.

Real code executed: AbstractSolver.Step/_Solve/Solve/Terminated/SetEvaluationLimits/_SetEvaluationLimits/SetTermination/
Finalize (and the NM/Powell overrides of _SetEvaluationLimits), termination.EvaluationLimits/SolverInterrupt,
_signal.Handler.__call__ (driven directly, stubbed input), the real _Step of NM / DE / DE2 / Powell under small limits,
fmin/fmin_powell/diffev/diffev2 warnflag tails.
Kernel harnesses replace only `_Step` by a counting stub that adds a solver-chosen number of evaluations and one
step-monitor record, so counters, limits, the termination verdict and the exit flag are solver variables.
"""
import itertools
from symex.engine import Instance
from symex.values import Ctx
from symex import stubs
from symex.ob import (eq, ne, le, lt, ge, gt, And, Or, Not, Implies, Iff, const, ite, absv, maxv, minv, R,
                      sumv, isinf, veq)
from harness import solverlib as L
from harness import steps as S

PROPERTY = 'C05'
LEVEL = 'model_checking'
ASSUMPTIONS = [
    'kernel harnesses: `_Step` is a stub performing a solver-chosen number (>= 1) of evaluations and logging one generation; everything else is the real '
    'AbstractSolver code; counters and limits are mathematical integers >= 0',
    'termination condition stub: an arbitrary (solver-chosen) truth value per generation with a fixed message',
    'exit requests: the _EARLYEXIT flag is set between steps (solver-chosen point) or through _signal.Handler.__call__ with stubbed console input; '
    'real asynchronous SIGINT delivery is outside the claim',
    'real-solver harnesses: limits are small enumerated integers, numeric state symbolic, cost uninterpreted; DE draws fixed; Powell uses the Brent contract',
]
BOUNDS = {'quick': dict(generations_preloaded='0..2', steps='<=3', limits='symbolic (kernel) / 0..2 (real solvers)'),
          'thorough': dict(generations_preloaded='0..3', steps='<=4', limits='symbolic (kernel) / 0..3 (real solvers)')}
BUDGET = {'quick': 1800, 'thorough': 3600}

STOPMSG = 'StubTermination with {}'


def stub_solver(ctx, kind, dim=2, unit_steps=False):
    """a real solver object whose _Step is a counting stub"""
    s = S.make_solver(kind, dim)
    log = dict(steps=0, term_calls=[])

    def _Step(cost=None, ExtraArgs=None, **kwds):
        log['steps'] += 1
        e = 1 if unit_steps else ctx.int('evals_in_step%d' % log['steps'], 1, None)
        s._fcalls[0] = s._fcalls[0] + e
        s._stepmon([0.0] * dim, 0.0, None)
        if kind == 'Powell':
            s.energy_history = None
    s._Step = _Step
    truth = {}

    def termination(solver, info=False):
        g = len(solver._stepmon)
        if g not in truth:
            truth[g] = ctx.bool('terminated_at_%d' % g)
        r = bool(truth[g])
        log['term_calls'].append((g, r))
        if info:
            return STOPMSG if r else ''
        return r
    termination.__doc__ = STOPMSG
    s._termination = termination
    s._cost = (lambda x: 0.0, lambda x: 0.0, ())
    s._live = True
    return s, log, truth


def preload(s, G):
    for _ in range(G + 1):
        s._stepmon([0.0] * s.nDim, 0.0, None)


def sym_limit(ctx, name, allow_none=True):
    """a solver-chosen limit: None or an arbitrary integer >= 0"""
    if allow_none and bool(ctx.bool(name + '_is_None')):
        return None
    return ctx.int(name, 0, None)


def reached(cnt, lim):
    return const(False) if lim is None else ge(cnt, lim)


def step_kernel(kind, G):
    """one Step() from an arbitrary counter state after the initial evaluation"""
    def h(ctx):
        s, log, truth = stub_solver(ctx, kind)
        preload(s, G)
        ev0 = ctx.int('evaluations', 1, None)
        s._fcalls[0] = ev0
        mi, mf = sym_limit(ctx, 'maxiter'), sym_limit(ctx, 'maxfun')
        s.SetEvaluationLimits(mi, mf)
        s._SetEvaluationLimits()
        MI, MF = s._maxiter, s._maxfun
        flag = ctx.bool('earlyexit')
        s._EARLYEXIT = bool(flag)
        gens0 = s.generations
        msg = s.Step()
        stepped = log['steps'] > 0
        t_pre = truth[G + 1] if (G + 1) in truth else None
        stop_before = Or(reached(ev0, MF), reached(gens0, MI), const(s._EARLYEXIT), t_pre if t_pre is not None else const(False))
        obs = [('no-iteration-begun-when-a-stop-condition-held', Implies(stop_before, const(not stepped))),
               ('iteration-performed-otherwise', Implies(Not(stop_before), const(stepped))),
               ('at-most-one-iteration-per-Step', const(log['steps'] <= 1))]
        obs += message_true(s, msg, truth, 'after')
        ctx.observe('msg', msg or '')
        return obs
    return h


def message_true(s, msg, truth, tag):
    """the stop message names a condition that is true of the final state; falsy iff none is"""
    ev, gens = s._fcalls[0], s.generations
    MI, MF = s._maxiter, s._maxfun
    g = len(s._stepmon)
    t = truth.get(g)
    tv = t if t is not None else const(False)
    anystop = Or(reached(ev, MF), reached(gens, MI), const(bool(s._EARLYEXIT)), tv)
    obs = [('message-iff-some-stop-condition-holds@%s' % tag, Iff(const(bool(msg)), anystop))]
    if msg:
        if msg.startswith('EvaluationLimits'):
            obs.append(('limits-message-is-true@%s' % tag, Or(reached(ev, MF), reached(gens, MI))))
        elif msg.startswith('SolverInterrupt'):
            obs.append(('interrupt-message-is-true@%s' % tag, const(bool(s._EARLYEXIT))))
        else:
            obs.append(('termination-message-is-true@%s' % tag, And(const(msg == STOPMSG), tv)))
    return obs


def solve_kernel(kind, maxiter, maxfun, new, G):
    """Solve() with the counting stub: returns; generations <= limit; evaluations < limit + one step's worth"""
    def h(ctx):
        s, log, truth = stub_solver(ctx, kind)
        preload(s, G)
        ev0 = ctx.int('evaluations', 1, 3)
        s._fcalls[0] = ev0
        gens0 = s.generations
        s.SetEvaluationLimits(maxiter, maxfun, new=new)
        s.Solve()
        ev, gens = s._fcalls[0], s.generations
        base_g, base_e = (gens0, ev0) if new else (0, 0)
        obs = [('solve-returned', const(True))]
        if maxiter is not None:
            obs.append(('generations-within-limit', const(gens <= max(base_g + maxiter, gens0))))
        if maxfun is not None:
            last = ctx.inputs.get('evals_in_step%d' % log['steps']) if log['steps'] else None
            if log['steps']:
                from symex.values import SInt
                before_last = ev - (SInt(last) if Ctx.mode == 'sym' else int(ctx.values.get('evals_in_step%d' % log['steps'], 1)))
                obs.append(('last-iteration-began-below-the-evaluation-limit', lt(before_last, base_e + maxfun)))
        msg = s.Terminated(info=True)
        obs += message_true(s, msg, truth, 'end')
        obs.append(('stopped', const(bool(msg))))
        # a second Solve on the stopped solver performs no further iteration
        n1 = log['steps']
        flag_before = s._EARLYEXIT
        s.Solve()
        obs.append(('second-Solve-performs-no-iteration', const(log['steps'] == n1)))
        return obs
    return h


def limits_kernel(kind, G):
    """SetEvaluationLimits / _SetEvaluationLimits arithmetic: total vs new, None defaults"""
    def h(ctx):
        s, log, truth = stub_solver(ctx, kind)
        preload(s, G)
        ev0 = ctx.int('evaluations', 0, None)
        s._fcalls[0] = ev0
        gens0 = s.generations
        scale = {'NM': (200, 200), 'Powell': (1000, 1000), 'DE': (10, 1000), 'DE2': (10, 1000)}[kind]
        N, NP = len(s.population[0]), s.nPop
        obs = []
        for new in (False, True):
            for gi, ei in ((ctx.int('g%s' % new, 0, None), ctx.int('e%s' % new, 0, None)), (None, None)):
                s.SetEvaluationLimits(gi, ei, new=new)
                s._SetEvaluationLimits()
                tag = 'new=%s/%s' % (new, 'given' if gi is not None else 'None')
                if gi is not None:
                    obs.append(('maxiter/%s' % tag, eq(s._maxiter, gi + (gens0 if new else 0))))
                    obs.append(('maxfun/%s' % tag, eq(s._maxfun, ei + (ev0 if new else 0))))
                else:
                    obs.append(('default-maxiter/%s' % tag, eq(s._maxiter, N * NP * scale[0] + (gens0 if new else 0))))
                    obs.append(('default-maxfun/%s' % tag, eq(s._maxfun, N * NP * scale[1] + (ev0 if new else 0))))
        return obs
    return h


def exit_request(kind, when):
    """an exit requested between steps stops the run before the next iteration; Handler 'exit' sets the flag, 'cont' does not"""
    def h(ctx):
        import builtins
        import mystic._signal as sig
        s, log, truth = stub_solver(ctx, kind, unit_steps=True)
        preload(s, 0)
        s._fcalls[0] = 1
        s.SetEvaluationLimits(L.BIG, L.BIG)
        for g in range(1, 8):
            truth[g] = False
        obs = []
        for k in range(when):
            s.Step()
        n0 = log['steps']
        answers = iter(['sol', 'cont'] if when % 2 else ['exit'])
        real_input = builtins.input
        hb = getattr(sig, '__builtins__')
        try:
            fake = lambda *a: next(answers)
            builtins.input = fake
            if isinstance(hb, dict):
                hb['input'] = fake
            import io
            import contextlib
            import inspect
            with contextlib.redirect_stdout(io.StringIO()):
                sig.Handler(s)(2, inspect.currentframe())
        finally:
            builtins.input = real_input
            if isinstance(hb, dict):
                hb['input'] = real_input
        requested = (when % 2 == 0)
        obs.append(('handler-sets-flag-only-on-exit', const(bool(s._EARLYEXIT) == requested)))
        msg = s.Step()
        if requested:
            obs.append(('no-iteration-after-exit-request', const(log['steps'] == n0)))
            obs.append(('message-names-the-interrupt', const(bool(msg) and msg.startswith('SolverInterrupt'))))
        else:
            obs.append(('continues-after-cont', const(log['steps'] == n0 + 1)))
        return obs
    return h


# ----------------------------------------------------------------------------- real solvers under small limits
def real_limits(kind, maxiter, maxfun, second):
    def h(ctx):
        dim = 1
        w = L.World(ctx, dim)
        s = S.make_solver(kind, dim)
        s.SetTermination(L.never())
        s.SetObjective(w.cost)
        if kind == 'Powell':
            S.install_brent_contract(ctx)
        x0 = ctx.reals('x', dim)
        if kind in ('DE', 'DE2'):
            for i in range(s.nPop):
                s.population[i] = [x0[j] + i for j in range(dim)]
            stubs.ORACLE.override = S.FixedDraws()
        else:
            s.population[0] = list(x0)
        s.SetEvaluationLimits(maxiter, maxfun)
        per_step = []
        orig = s._Step

        def counting(*a, **k):
            n0 = len(w.calls)
            r = orig(*a, **k)
            per_step.append((n0, len(w.calls)))
            return r
        s._Step = counting
        try:
            s.Solve()
            obs = [('solve-returned', const(True))]
            obs.append(('evaluations-is-number-of-cost-calls', eq(s.evaluations, len(w.calls))))
            if maxiter is not None:
                obs.append(('generations-within-limit', const(s.generations <= maxiter)))
            if maxfun is not None and per_step:
                # after the initial evaluation, every iteration began below the evaluation limit
                for k, (a, b) in enumerate(per_step[1:]):
                    obs.append(('iteration-%d-began-below-evaluation-limit' % (k + 1), const(a < maxfun)))
            msg = s.Terminated(info=True)
            obs.append(('stop-message-names-a-true-condition', const(bool(msg) and msg.startswith('EvaluationLimits') and
                                                                      ((maxfun is not None and len(w.calls) >= maxfun) or (maxiter is not None and s.generations >= maxiter)))))
            if second:
                n1, g1 = len(w.calls), s.generations
                s.Solve()
                obs.append(('second-Solve-performs-no-iteration', const(len(w.calls) == n1 and s.generations == g1)))
        finally:
            stubs.ORACLE.override = None
        return obs
    return h


def wrapper_flags(kind, maxiter, maxfun):
    def oblig(r):
        out = r.out
        it, fc, flag = out[2], out[3], out[4]
        obs = [('funcalls-is-number-of-cost-calls', const(fc == len(r.w.calls)))]
        if flag == 1:
            obs.append(('warnflag-1-means-evaluation-limit-reached', const(maxfun is not None and fc >= maxfun)))
        elif flag == 2:
            obs.append(('warnflag-2-means-iteration-limit-reached', const(maxiter is not None and it >= maxiter)))
        else:
            obs.append(('warnflag-0-means-no-limit-reached', const((maxfun is None or fc < maxfun) and (maxiter is None or it < maxiter))))
        if maxiter is not None:
            obs.append(('iterations-within-limit', const(it <= maxiter)))
        return obs
    return S.wrapper(kind, 'plain', 1, maxiter, oblig, maxfun=maxfun)


def wrapper_default_limits(kind, min_evals=1):
    """fmin / fmin_powell / diffev called WITHOUT limits: the solver's default limits apply; `_Step` is replaced (class level) by the
    counting stub so that one iteration can consume a solver-chosen number of evaluations; the returned warnflag must name a
    condition true of the final state (1: evaluations >= resolved limit, 2: iterations >= resolved limit, 0: neither)"""
    def h(ctx):
        import mystic.scipy_optimize as so
        import mystic.differential_evolution as de
        dim = 1
        cls = {'fmin': so.NelderMeadSimplexSolver, 'fmin_powell': so.PowellDirectionalSolver, 'diffev': de.DifferentialEvolutionSolver,
               'diffev2': de.DifferentialEvolutionSolver2}[kind]
        nPop = 4 if kind.startswith('diffev') else 1
        scale = {'fmin': (200, 200), 'fmin_powell': (1000, 1000), 'diffev': (10, 1000), 'diffev2': (10, 1000)}[kind]
        lim_iter, lim_eval = dim * nPop * scale[0], dim * nPop * scale[1]
        steps = [0]
        orig = cls._Step

        def _Step(self, cost=None, ExtraArgs=None, **kwds):
            steps[0] += 1
            e = ctx.int('evals_in_step%d' % steps[0], min_evals, None)
            self._fcalls[0] = self._fcalls[0] + e
            self._stepmon([0.0] * dim, 0.0, None)
            if kind == 'fmin_powell':
                self.energy_history = None
            self._live = True
        cls._Step = _Step
        try:
            w = L.World(ctx, dim)
            kw = dict(full_output=1, disp=0)
            if kind.startswith('diffev'):
                kw['npop'] = 4
            out = getattr(so if kind.startswith('fmin') else de, kind)(w.cost, [ctx.real('x0')], **kw)
        finally:
            cls._Step = orig
        it, fc, flag = out[2], out[3], out[4]
        obs = [('warnflag-1-iff-evaluation-limit-reached', Iff(const(flag == 1), ge(fc, lim_eval))),
               ('warnflag-2-iff-only-the-iteration-limit-reached', Iff(const(flag == 2), And(lt(fc, lim_eval), const(it >= lim_iter)))),
               ('warnflag-0-iff-no-limit-reached', Iff(const(flag == 0), And(lt(fc, lim_eval), const(it < lim_iter))))]
        return obs
    return h


def instances(tier, seed):
    q = tier == 'quick'
    out = []
    Gs = (0, 1, 2) if q else (0, 1, 2, 3)
    # (Powell overrides the generation counter and Finalize around its private energy history, which the counting stub does
    #  not emulate: Powell is covered by limits-arithmetic and by the real/Powell and wrapper instances)
    for kind in ('NM', 'DE', 'DE2', 'Powell'):
        out.append(Instance('limits-arithmetic/%s' % kind, limits_kernel(kind, 1)))
        if kind == 'Powell':
            continue
        for G in Gs:
            out.append(Instance('step-kernel/%s/gen=%d' % (kind, G), step_kernel(kind, G)))
        for when in ((1, 2) if q else (0, 1, 2, 3)):
            out.append(Instance('exit-request/%s/after=%d' % (kind, when), exit_request(kind, when)))
    lim = (0, 1, 2) if q else (0, 1, 2, 3)
    for kind in (('NM', 'DE') if q else ('NM', 'DE', 'DE2')):
        for mi in lim + (None,):
            for mf in ((1, 3, None) if q else (0, 1, 2, 3, 5, None)):
                if mi is None and mf is None:
                    continue
                for new in (False, True):
                    for G in ((0, 1) if q else (0, 1, 2)):
                        out.append(Instance('solve-kernel/%s/maxiter=%s/maxfun=%s/new=%s/gen=%d' % (kind, mi, mf, new, G), solve_kernel(kind, mi, mf, new, G)))
    for kind in ('NM', 'Powell', 'DE', 'DE2'):
        for mi, mf in (((0, None), (1, None), (2, None), (None, 1), (None, 3), (1, 2)) if q else
                       [(a, b) for a in (0, 1, 2, 3, None) for b in (1, 2, 3, 5, None) if not (a is None and b is None)]):
            if kind.startswith('DE') and ((mi or 0) > 1 or (mi is None and (mf or 0) > 4)):
                continue
            out.append(Instance('real/%s/maxiter=%s/maxfun=%s' % (kind, mi, mf), real_limits(kind, mi, mf, True), qtimeout=4000))
    for kind in ('fmin', 'fmin_powell', 'diffev', 'diffev2'):
        out.append(Instance('wrapper-default-limits/%s' % kind, wrapper_default_limits(kind, 60 if (q and kind == 'fmin') else 1), max_paths=5000))
    for kind in ('fmin', 'fmin_powell', 'diffev', 'diffev2'):
        for mi, mf in ((0, None), (1, None), (None, 1), (2, 3)):
            if kind.startswith('diffev') and (mi or 0) > 1:
                continue
            out.append(Instance('wrapper/%s/maxiter=%s/maxfun=%s' % (kind, mi, mf), wrapper_flags(kind, mi, mf), qtimeout=4000))
    return out
