"""C10 - termination conditions mean what they say, alone and in combination.

Real code executed: every factory in mystic.termination (primitives, When/And/Or, state, type),
mystic.math.distance.Lnorm (GradientNormTolerance).
Symbolic: history entries (a solver-chosen subset is +inf), tolerances >= 0, targets, populations,
energies, counters, clock instants.  Enumerated: history length L, window g, tree shapes.
Oracle: the documented inequality of each condition, with the reading fixed in DESIGN.md (window
longer than the history -> not satisfied; cost[-g] is python indexing; a plateau cost[-g]==cost[-1]
counts as zero change, also at inf).
"""
import itertools
import math
from symex.engine import Instance
from symex.values import Ctx
from symex import stubs
from symex.ob import (eq, ne, le, lt, ge, gt, And, Or, Not, Implies, Iff, const, ite, absv, maxv, minv, R,
                      sumv, isinf, sqrt)

PROPERTY = 'C10'
LEVEL = 'model_checking'
ASSUMPTIONS = [
    'floats modelled as exact reals; energies are finite reals or +inf (NaN and -inf outside the claim)',
    'tolerances are >= 0 and finite',
    'NormalizedChangeOverGeneration: the eta=1e-20 slack is allowed but not required (two-sided obligation)',
    'rebuilt-from-state is checked for leaf conditions with concrete keyword settings (state() evaluates the printed kwds)',
    'compound trees use leaves of pairwise different kinds (termination.state documents "no duplicate types")',
]
BOUNDS = {'quick': dict(history_length='0..3', window='None,0..L+1', trees='<=3 leaves, depth<=2', population='<=3 x 2'),
          'thorough': dict(history_length='0..5', window='None,0..L+1', trees='<=4 leaves, depth<=3', population='<=4 x 3')}
BUDGET = {'quick': 1800, 'thorough': 3000}

INF = float('inf')


class Inst(object):
    pass


def history(ctx, L, with_inf=True):
    h = []
    for i in range(L):
        if with_inf and bool(ctx.bool('inf%d' % i)):
            h.append(INF)
        else:
            h.append(ctx.real('e%d' % i))
    return h


def xsub(a, b):
    ai, bi = isinf(a), isinf(b)
    if ai or bi:
        return (a if ai else 0.0) - (b if bi else 0.0)
    return a - b


def xabs(a):
    return abs(a) if isinf(a) or (isinstance(a, float) and math.isnan(a)) else absv(a)


def xeq(a, b):
    ai, bi = isinf(a), isinf(b)
    if ai or bi:
        return const(ai and bi and a == b)
    return eq(a, b)


def tol_(ctx, name='tol'):
    t = ctx.real(name)
    ctx.assume(ge(t, 0))
    return t


def truth(r):
    """mystic conditions return a doc string / '' (info) or bool"""
    return bool(r)


# ----------------------------------------------------------------------------- primitives
def windowed(kind, L, g):
    def h(ctx):
        import mystic.termination as T
        inst = Inst()
        hist = history(ctx, L)
        inst.energy_history = list(hist)
        tol = tol_(ctx)
        gens = 0 if g is None else g
        obs = []
        if kind == 'ChangeOverGeneration':
            c = T.ChangeOverGeneration(tol, g)
            r = truth(c(inst))
            if L == 0 or L <= gens:
                want = const(False)
            else:
                a, b = hist[-gens], hist[-1]
                want = Or(le(xsub(a, b), tol), xeq(a, b))
            obs.append(('cog-iff-documented', Iff(const(r), want)))
        elif kind == 'NormalizedChangeOverGeneration':
            c = T.NormalizedChangeOverGeneration(tol, g)
            r = truth(c(inst))
            if L == 0 or L <= gens:
                obs.append(('ncog-short-history', const(not r)))
            else:
                a, b = hist[-gens], hist[-1]
                if isinf(a) or isinf(b):
                    # an inf plateau is zero change; a history that enters or leaves inf inside the window has no
                    # defined normalized change (inf/inf) and is outside the claim
                    if isinf(a) and isinf(b):
                        obs.append(('ncog-inf-plateau-met', const(r)))
                else:
                    lhs = R(2) * (a - b)
                    rhs = tol * (absv(a) + absv(b))
                    obs.append(('ncog-documented-implies-met', Implies(Or(le(lhs, rhs), eq(a, b)), const(r))))
                    obs.append(('ncog-met-implies-documented', Implies(const(r), Or(le(lhs, rhs + 1e-20), eq(a, b)))))
        elif kind == 'VTRChangeOverGeneration':
            target = ctx.real('target')
            gtol = tol_(ctx, 'gtol')
            c = T.VTRChangeOverGeneration(tol, gtol, g, target)
            r = truth(c(inst))
            if L == 0:
                want = const(False)
            else:
                vtr = le(xabs(xsub(hist[-1], target)), tol)
                if L <= gens:
                    want = vtr
                else:
                    a, b = hist[-gens], hist[-1]
                    want = Or(vtr, le(xsub(a, b), gtol), xeq(a, b))
            obs.append(('vtrcog-iff-documented', Iff(const(r), want)))
        elif kind == 'NormalizedCostTarget/None':
            c = T.NormalizedCostTarget(None, tol, g)
            r = truth(c(inst))
            if L == 0:
                want = const(False)
            elif not gens:
                want = const(True)
            elif L <= gens:
                want = const(False)
            else:
                a, b = hist[-gens], hist[-1]
                want = Or(le(xsub(a, b), 0), xeq(a, b))
            obs.append(('nct-noimprovement-iff-documented', Iff(const(r), want)))
        c_info = c(inst, True)
        obs.append(('info-string-consistent', const(bool(c_info) == r and (c_info == c.__doc__ or c_info == ''))))
        return obs
    return h


def last_only(kind, L):
    def h(ctx):
        import mystic.termination as T
        inst = Inst()
        hist = history(ctx, L)
        inst.energy_history = list(hist)
        tol = tol_(ctx)
        obs = []
        if kind == 'VTR':
            target = ctx.real('target')
            c = T.VTR(tol, target)
            r = truth(c(inst))
            want = const(False) if L == 0 else le(xabs(xsub(hist[-1], target)), tol)
            obs.append(('vtr-iff-documented', Iff(const(r), want)))
        elif kind == 'NormalizedCostTarget/fval':
            fval = ctx.real('fval')
            c = T.NormalizedCostTarget(fval, tol, 0)
            r = truth(c(inst))
            want = const(False) if L == 0 else le(xabs(xsub(hist[-1], fval)), absv(tol * fval))
            obs.append(('nct-iff-documented', Iff(const(r), want)))
        c_info = c(inst, True)
        obs.append(('info-string-consistent', const(bool(c_info) == r and (c_info == c.__doc__ or c_info == ''))))
        return obs
    return h


def population_kind(kind, NP, D):
    def h(ctx):
        import mystic.termination as T
        inst = Inst()
        pop = [[ctx.real('p%d_%d' % (i, j)) for j in range(D)] for i in range(NP)]
        inst.population = [list(p) for p in pop]
        obs = []
        if kind == 'CandidateRelativeTolerance':
            E = [ctx.real('E%d' % i) for i in range(NP)]
            inst.popEnergy = list(E)
            xtol, ftol = tol_(ctx, 'xtol'), tol_(ctx, 'ftol')
            c = T.CandidateRelativeTolerance(xtol, ftol)
            r = truth(c(inst))
            want = And(And(*[le(absv(pop[i][j] - pop[0][j]), xtol) for i in range(1, NP) for j in range(D)]),
                       And(*[le(absv(E[0] - E[i]), ftol) for i in range(1, NP)]))
            obs.append(('crt-iff-documented', Iff(const(r), want)))
        elif kind == 'PopulationSpread':
            tol = tol_(ctx)
            c = T.PopulationSpread(tol)
            r = truth(c(inst))
            want = And(*[le(absv(pop[i][j] - pop[0][j]), absv(tol * pop[0][j])) for i in range(NP) for j in range(D)])
            obs.append(('spread-iff-documented', Iff(const(r), want)))
        elif kind == 'SolutionImprovement':
            tol = tol_(ctx)
            inst.bestSolution = list(pop[0])
            inst.trialSolution = list(pop[1])
            c = T.SolutionImprovement(tol)
            r = truth(c(inst))
            want = le(sumv([absv(pop[0][j] - pop[1][j]) for j in range(D)]), tol)
            obs.append(('improvement-iff-documented', Iff(const(r), want)))
        elif kind.startswith('GradientNormTolerance'):
            p = {'1': 1, '2': 2, 'inf': INF}[kind.split('/')[1]]
            tol = tol_(ctx)
            g = pop[0]
            inst.gradient = [list(g)]
            c = T.GradientNormTolerance(tol, p)
            r = truth(c(inst))
            if p == 1:
                want = le(sumv([absv(v) for v in g]), tol)
            elif p == 2:
                want = le(sumv([v * v for v in g]), tol * tol)
            else:
                want = And(*[le(absv(v), tol) for v in g])
            obs.append(('gradnorm-iff-documented', Iff(const(r), want)))
        return obs
    return h


def counters():
    def h(ctx):
        import mystic.termination as T
        inst = Inst()
        gens = ctx.int('gens', 0, None)
        evals = ctx.int('evals', 0, None)
        inst.generations = gens
        inst._fcalls = [evals]
        obs = []
        mg, me = ctx.int('maxgen', 0, None), ctx.int('maxeval', 0, None)
        for name, (G, E) in dict(both=(mg, me), gen_only=(mg, None), eval_only=(None, me), none=(None, None)).items():
            c = T.EvaluationLimits(G, E)
            r = truth(c(inst))
            want = Or(const(False) if G is None else ge(gens, G), const(False) if E is None else ge(evals, E))
            obs.append(('limits-iff-documented/%s' % name, Iff(const(r), want)))
        flag = ctx.bool('earlyexit')
        inst._EARLYEXIT = flag
        r = truth(T.SolverInterrupt()(inst))
        obs.append(('interrupt-iff-flag', Iff(const(r), flag if not isinstance(flag, bool) else const(flag))))
        return obs
    return h


def timelimits():
    def h(ctx):
        import mystic.termination as T
        secs = ctx.real('seconds')
        ctx.assume(ge(secs, 0))
        times = []
        if Ctx.mode == 'conc':
            import time as _t
            vals = iter([float(ctx.values.get('clk!%d' % i, 0.0)) for i in range(4)])
            orig = _t.time
            _t.time = lambda: times.append(next(vals)) or times[-1]
        try:
            c = T.TimeLimits(secs)
            r1 = truth(c(Inst()))
            r2 = truth(c(Inst()))
        finally:
            if Ctx.mode == 'conc':
                _t.time = orig
        if Ctx.mode == 'sym':
            import z3
            from symex.values import SReal
            times = [SReal(z3.Real('clk!%d' % i)) for i in range(3)]
        obs = [('time-iff-elapsed/1', Iff(const(r1), ge(times[1] - times[0], secs))),
               ('time-iff-elapsed/2', Iff(const(r2), ge(times[2] - times[0], secs))),
               ('monotone', Implies(const(r1), const(r2)))]
        return obs
    return h


# ----------------------------------------------------------------------------- compound trees
LEAF_KINDS = ('VTR', 'COG', 'NCT', 'EL')


def _mk_leaf(T, ctx, kind, i):
    """a real primitive whose truth value is an independent solver variable"""
    if kind == 'VTR':
        tol, target = tol_(ctx, 'vtol%d' % i), ctx.real('vtarget%d' % i)
        return T.VTR(tol, target), lambda inst: le(absv(inst.energy_history[-1] - target), tol)
    if kind == 'COG2':
        tol = tol_(ctx, 'c2tol%d' % i)
        return T.ChangeOverGeneration(tol, 2), lambda inst: Or(le(inst.energy_history[-2] - inst.energy_history[-1], tol),
                                                               eq(inst.energy_history[-2], inst.energy_history[-1]))
    if kind == 'NCT':
        tol, fval = tol_(ctx, 'ntol%d' % i), ctx.real('fval%d' % i)
        return T.NormalizedCostTarget(fval, tol, 0), lambda inst: le(absv(inst.energy_history[-1] - fval), absv(tol * fval))
    if kind == 'EL':
        mg = ctx.int('maxgen%d' % i, 0, None)
        return T.EvaluationLimits(mg, None), lambda inst: ge(inst.generations, mg)
    raise KeyError(kind)


def tree_shapes(max_leaves, max_depth):
    """nested tuples: ('L', k) leaf k ; ('And'|'Or'|'When', children...)"""
    kinds = ('VTR', 'COG2', 'NCT', 'EL')

    def build(nleaves, depth, start):
        # returns list of (tree, leaves_used)
        res = []
        if nleaves == 1:
            res.append((('L', kinds[start]), 1))
            if depth > 0:
                res.append((('When', ('L', kinds[start])), 1))
        if depth > 0 and nleaves >= 2:
            for op in ('And', 'Or'):
                # split leaves among 2 or 3 children
                for parts in _compositions(nleaves):
                    if len(parts) < 2 or len(parts) > 3:
                        continue
                    subs = [[]]
                    s = start
                    ok = True
                    for p in parts:
                        cand = build(p, depth - 1, s)
                        if not cand:
                            ok = False
                            break
                        subs = [a + [c[0]] for a in subs for c in cand]
                        s += p
                    if ok:
                        for ch in subs:
                            res.append(((op,) + tuple(ch), nleaves))
        return res
    out = []
    for n in range(1, max_leaves + 1):
        out += [t for t, _ in build(n, max_depth, 0)]
    return out


def _compositions(n):
    if n == 0:
        yield ()
        return
    for first in range(1, n + 1):
        for rest in _compositions(n - first):
            yield (first,) + rest


def _name(t):
    if t[0] == 'L':
        return t[1]
    return '%s(%s)' % (t[0], ','.join(_name(c) for c in t[1:]))


def compound(tree):
    def h(ctx):
        import mystic.termination as T
        inst = Inst()
        inst.energy_history = [ctx.real('e0'), ctx.real('e1'), ctx.real('e2')]
        inst.generations = ctx.int('gens', 0, None)
        inst._fcalls = [ctx.int('evals', 0, None)]
        leaves = {}

        def build(t):
            if t[0] == 'L':
                c, tr = _mk_leaf(T, ctx, t[1], len(leaves))
                leaves[c.__doc__] = (c, tr(inst))
                return c, tr(inst), ('L', c.__doc__)
            kids = [build(c) for c in t[1:]]
            cond = getattr(T, t[0])(*[k[0] for k in kids])
            if t[0] == 'Or':
                tv = Or(*[k[1] for k in kids])
            else:
                tv = And(*[k[1] for k in kids])
            return cond, tv, (t[0],) + tuple(k[2] for k in kids)
        cond, tv, shape = build(tree)
        # which leaves are satisfied on this path (decided by the code under test)
        leaf_r = {d: truth(c(inst)) for d, (c, _) in leaves.items()}
        obs = [('leaf-iff-documented[%d]' % i, Iff(const(leaf_r[d]), tr)) for i, (d, (c, tr)) in enumerate(leaves.items())]
        r = truth(cond(inst))
        obs.append(('compound-iff-propositional', Iff(const(r), tv)))

        def named(s):
            if s[0] == 'L':
                return {s[1]} if leaf_r[s[1]] else set(), leaf_r[s[1]]
            ks = [named(c) for c in s[1:]]
            if s[0] == 'Or':
                return set().union(*[k[0] for k in ks if k[1]]), any(k[1] for k in ks)
            ok = all(k[1] for k in ks)
            return (set().union(*[k[0] for k in ks]) if ok else set()), ok
        want_names, want_r = named(shape)
        info = cond(inst, True)
        got = set(x for x in info.split('; ') if x) if isinstance(info, str) else None
        obs.append(('info-names-exactly-satisfied-leaves', const(got == want_names)))
        obs.append(('info-only-satisfied', const(got is not None and all(leaf_r.get(x, False) for x in got))))
        obs.append(('info-nonempty-iff-met', const(bool(info) == r)))
        if tree[0] != 'L':
            me = cond(inst, 'self')
            no = cond(inst, 'not')
            members = list(cond)
            obs.append(('self-not-partition', const(set(me) | set(no) == set(members) and not (set(me) & set(no)))))
            if tree[0] == 'Or':
                obs.append(('or-self-is-satisfied-members', const(set(me) == set(m for m in members if truth(m(inst))))))
            else:
                obs.append(('and-self-all-or-nothing', const(set(me) == (set(members) if r else set()))))
        return obs
    return h


def rebuilt(kind):
    """type(c)(**state(c)[doc]) behaves identically (leaf conditions, concrete kwds, symbolic solver state)"""
    def h(ctx):
        import mystic.termination as T
        inst = Inst()
        hist = history(ctx, 3, with_inf=False)
        inst.energy_history = list(hist)
        inst.generations = ctx.int('gens', 0, None)
        inst._fcalls = [ctx.int('evals', 0, None)]
        inst._EARLYEXIT = False
        pop = [[ctx.real('p%d_%d' % (i, j)) for j in range(2)] for i in range(3)]
        inst.population = [list(p) for p in pop]
        inst.popEnergy = [ctx.real('E%d' % i) for i in range(3)]
        inst.bestSolution = list(pop[0]); inst.trialSolution = list(pop[1])
        inst.gradient = [list(pop[2])]
        mk = dict(
            VTR=lambda: T.VTR(0.25, 1.5),
            ChangeOverGeneration=lambda: T.ChangeOverGeneration(0.125, 2),
            NormalizedChangeOverGeneration=lambda: T.NormalizedChangeOverGeneration(0.5, 1),
            CandidateRelativeTolerance=lambda: T.CandidateRelativeTolerance(0.5, 0.75),
            SolutionImprovement=lambda: T.SolutionImprovement(0.5),
            NormalizedCostTarget=lambda: T.NormalizedCostTarget(2.0, 0.25, 2),
            VTRChangeOverGeneration=lambda: T.VTRChangeOverGeneration(0.5, 0.25, 2, 1.0),
            PopulationSpread=lambda: T.PopulationSpread(0.5),
            GradientNormTolerance=lambda: T.GradientNormTolerance(0.5, 1),
            EvaluationLimits=lambda: T.EvaluationLimits(3, 7),
        )
        import numpy as _np
        mk.update({
            # settings computed with numpy (numpy >= 2 prints them as np.float64(...) in the condition's doc string)
            'VTR/numpy-scalars': lambda: T.VTR(_np.float64(0.25), _np.float64(1.5)),
            'ChangeOverGeneration/numpy-scalars': lambda: T.ChangeOverGeneration(_np.float64(0.125), _np.int64(2)),
            'CandidateRelativeTolerance/numpy-scalars': lambda: T.CandidateRelativeTolerance(_np.float64(0.5), _np.float32(0.75)),
            'EvaluationLimits/numpy-scalars': lambda: T.EvaluationLimits(_np.int64(3), _np.int64(7)),
        })
        c = mk[kind]()
        doc = c.__doc__
        try:
            st = T.state(c)
            c2 = T.type(c)(**st[doc])
        except Exception as e:
            # the condition cannot be rebuilt from its own reported state
            ctx.note('rebuild raised %s: %s' % (type(e).__name__, e))
            return [('condition-can-be-rebuilt-from-its-state', const(False))]
        r1, r2 = truth(c(inst)), truth(c2(inst))
        return [('condition-can-be-rebuilt-from-its-state', const(True)), ('state-has-own-doc', const(list(st.keys()) == [doc])), ('rebuilt-same-doc', const(c2.__doc__ == doc)),
                ('rebuilt-same-verdict', const(r1 == r2))]
    return h


def instances(tier, seed):
    Lmax = 3 if tier == 'quick' else 5
    out = []
    for kind in ('ChangeOverGeneration', 'NormalizedChangeOverGeneration', 'VTRChangeOverGeneration', 'NormalizedCostTarget/None'):
        for L in range(0, Lmax + 1):
            for g in [None] + list(range(0, L + 2)):
                out.append(Instance('window/%s/L=%d/g=%s' % (kind, L, g), windowed(kind, L, g)))
    for kind in ('VTR', 'NormalizedCostTarget/fval'):
        for L in range(0, min(Lmax, 3) + 1):
            out.append(Instance('last/%s/L=%d' % (kind, L), last_only(kind, L)))
    shapes = [(2, 1), (2, 2), (3, 2)] if tier == 'quick' else [(2, 1), (2, 2), (3, 2), (3, 3), (4, 2)]
    for kind in ('CandidateRelativeTolerance', 'PopulationSpread'):
        for NP, D in shapes:
            out.append(Instance('population/%s/%dx%d' % (kind, NP, D), population_kind(kind, NP, D)))
    for D in (1, 2, 3) if tier == 'quick' else (1, 2, 3, 4):
        out.append(Instance('population/SolutionImprovement/D=%d' % D, population_kind('SolutionImprovement', 2, D)))
        for p in ('1', '2', 'inf'):
            if p == '2' and D > 3:
                continue
            out.append(Instance('population/GradientNormTolerance/%s/D=%d' % (p, D), population_kind('GradientNormTolerance/' + p, 1, D)))
    out.append(Instance('counters/EvaluationLimits+SolverInterrupt', counters()))
    out.append(Instance('clock/TimeLimits', timelimits()))
    trees = tree_shapes(3, 2) if tier == 'quick' else tree_shapes(4, 3)
    for t in trees:
        out.append(Instance('compound/%s' % _name(t), compound(t)))
    for kind in ('VTR', 'ChangeOverGeneration', 'NormalizedChangeOverGeneration', 'CandidateRelativeTolerance',
                 'SolutionImprovement', 'NormalizedCostTarget', 'VTRChangeOverGeneration', 'PopulationSpread',
                 'GradientNormTolerance', 'EvaluationLimits', 'VTR/numpy-scalars', 'ChangeOverGeneration/numpy-scalars',
                 'CandidateRelativeTolerance/numpy-scalars', 'EvaluationLimits/numpy-scalars'):
        out.append(Instance('rebuilt/%s' % kind, rebuilt(kind)))
    return out
