"""C08 - the optimizers implement their published algorithms.

Differential harnesses: the real step is executed symbolically and compared with a short reference
transcription of the published iteration, both calling the SAME uninterpreted cost (and, for Powell, the same
line-search oracle), from an arbitrary state:
  * NelderMeadSimplexSolver._Step (generation > 1)  vs  the iteration of scipy.optimize.fmin (reflection / expansion /
    outside + inside contraction / shrink), incl. the adaptive coefficients and the initial simplex rule;
    the transcription itself is validated against the vendored _scipy060optimize.fmin on concrete runs;
  * PowellDirectionalSolver._Step (generations 0..2) vs the direction-set iteration of scipy.optimize.fmin_powell;
  * every mutation strategy in mystic.strategy called on a solver with symbolic population, best, F, CR and
    symbolic random draws: each trial component is the parent's or base + F * (difference of distinct others),
    mutated positions follow the crossover rule; DE selection replaces a member only by a strictly lower trial.
"""
import itertools
from symex.engine import Instance
from symex.values import Ctx
from symex import stubs
from symex.ob import (eq, ne, le, lt, ge, gt, And, Or, Not, Implies, Iff, const, ite, absv, maxv, minv, R,
                      sumv, isinf, veq)
from harness import solverlib as L
from harness import steps as S

PROPERTY = 'C08'
LEVEL = 'translation_validation'
ASSUMPTIONS = [
    'floats modelled as exact reals ("same minimizer and minimum to rounding" is equality in real arithmetic; rounding outside the claim)',
    'unconstrained problems (no bounds, constraints or penalty), as the property states',
    'Powell: real step and reference share one line-search oracle: the Brent contract (arbitrary step length alpha with f(alpha) <= f(0)); the k-th line search of both sides uses the same alpha; '
    'the contract is discharged on the vendored bracket()/Brent.optimize for an uninterpreted function within <= 0 (1) bracketing-loop and <= 2 (3) Brent iterations',
    'exponential crossover is read as implemented throughout this code family: the run of mutated positions starts at the random index n and continues while '
    'successive random draws are below CR, at most dim positions (possibly none)',
    'vertices with exactly equal energies may be ordered differently by the two sorts: simplices are compared as multisets of (vertex, energy)',
]
BOUNDS = {'quick': dict(nm_dim='1..2', powell_dim='1..2', de=dict(dim='1..2', strategies=10)),
          'thorough': dict(nm_dim='1..3', powell_dim='1..2', de=dict(dim='1..3', strategies=10))}
BUDGET = {'quick': 1800, 'thorough': 3600}


def programs_count(agg):
    return len(agg)


# ----------------------------------------------------------------------------- Nelder-Mead
def ref_nm_iteration(sim, fsim, func, adaptive=False):
    """one iteration of scipy.optimize.fmin on a sorted simplex (lists of lists); returns (sim, fsim) unsorted, and the number of calls"""
    N = len(sim[0])
    if adaptive:
        dim = float(N)
        rho, chi, psi, sigma = 1, 1 + 2 / dim, 0.75 - 1 / (2 * dim), 1 - 1 / dim
    else:
        rho, chi, psi, sigma = 1, 2, 0.5, 0.5
    sim = [list(v) for v in sim]
    fsim = list(fsim)
    ncalls = [0]

    def f(x):
        ncalls[0] += 1
        return func(x)
    xbar = [sumv([sim[i][j] for i in range(N)]) / R(N) for j in range(N)]
    xr = [R(1 + rho) * xbar[j] - R(rho) * sim[-1][j] for j in range(N)]
    fxr = f(xr)
    doshrink = False
    if bool(lt(fxr, fsim[0])):
        xe = [R(1 + rho * chi) * xbar[j] - R(rho * chi) * sim[-1][j] for j in range(N)]
        fxe = f(xe)
        if bool(lt(fxe, fxr)):
            sim[-1], fsim[-1] = xe, fxe
        else:
            sim[-1], fsim[-1] = xr, fxr
    else:
        if bool(lt(fxr, fsim[-2])):
            sim[-1], fsim[-1] = xr, fxr
        else:
            if bool(lt(fxr, fsim[-1])):
                xc = [R(1 + psi * rho) * xbar[j] - R(psi * rho) * sim[-1][j] for j in range(N)]
                fxc = f(xc)
                if bool(le(fxc, fxr)):
                    sim[-1], fsim[-1] = xc, fxc
                else:
                    doshrink = True
            else:
                xcc = [R(1 - psi) * xbar[j] + R(psi) * sim[-1][j] for j in range(N)]
                fxcc = f(xcc)
                if bool(lt(fxcc, fsim[-1])):
                    sim[-1], fsim[-1] = xcc, fxcc
                else:
                    doshrink = True
            if doshrink:
                for j in range(1, N + 1):
                    sim[j] = [sim[0][k] + R(sigma) * (sim[j][k] - sim[0][k]) for k in range(N)]
                    fsim[j] = f(sim[j])
    return sim, fsim, ncalls[0]


def same_simplex(a, fa, b, fb):
    """equal as multisets of (vertex, energy) (mutual inclusion)"""
    def has(v, fv, S_, F_):
        return Or(*[And(veq(v, S_[i]), eq(fv, F_[i])) for i in range(len(S_))])
    return And(And(*[has(a[i], fa[i], b, fb) for i in range(len(a))]), And(*[has(b[i], fb[i], a, fa) for i in range(len(b))]))


def nm_vs_reference(dim, adaptive):
    def h(ctx):
        w = L.World(ctx, dim)
        s = S.nm_solver(dim)
        L.configure(s, w)
        V = [ctx.reals('V%d_' % i, dim) for i in range(dim + 1)]
        E = [w.raw(v) for v in V]
        for i in range(dim):
            ctx.assume(le(E[i], E[i + 1]))
        s._decorate_objective(w.cost)
        s.population = L.mat(V)
        s.popEnergy = L.arr(E)
        L.log_generations(s, 1, V[0], E[0])
        n0 = len(w.calls)
        s.Step(adaptive=adaptive)
        pop, en, b1, be1 = L.state_of(s)
        real_calls = len(w.calls) - n0
        rsim, rfsim, rcalls = ref_nm_iteration(V, E, lambda x: w.f(list(x)), adaptive)
        obs = [('same-simplex-as-reference-iteration', same_simplex(pop, en, rsim, rfsim)),
               ('same-number-of-evaluations', const(real_calls == rcalls)),
               ('result-sorted', And(*[le(en[i], en[i + 1]) for i in range(dim)])),
               ('best-is-reference-minimum', eq(be1, minv(*rfsim)))]
        ctx.observe('bestEnergy', be1)
        return obs
    return h


def nm_initial_simplex(dim):
    """generations 0 and 1 build scipy's initial simplex: x0 and x0 with the k-th coordinate *1.05 (0.00025 if zero)"""
    def h(ctx):
        w = L.World(ctx, dim)
        s = S.nm_solver(dim)
        L.configure(s, w)
        x0 = ctx.reals('x', dim)
        s.population[0] = list(x0)
        s.Step()
        n0 = len(w.calls)
        obs = [('generation-0-evaluates-x0', And(const(n0 == 1), veq(w.calls[0], x0)))]
        s.Step()
        calls = w.calls[n0:]
        obs.append(('generation-1-evaluates-N-vertices', const(len(calls) == dim)))
        for k in range(min(dim, len(calls))):
            want = [ite(eq(x0[j], 0), R(ZDELT), R(1.05) * x0[j]) if j == k else x0[j] for j in range(dim)]
            obs.append(('initial-simplex-vertex[%d]' % (k + 1), veq(calls[k], want)))
        pop, en, b1, be1 = L.state_of(s)
        ref = [list(x0)] + [[ite(eq(x0[j], 0), R(ZDELT), R(1.05) * x0[j]) if j == k else x0[j] for j in range(dim)] for k in range(dim)]
        obs.append(('simplex-is-sorted-initial-simplex', same_simplex(pop, en, ref, [w.f(v) for v in ref])))
        return obs
    return h


def nm_reference_selftest():
    """the transcription reproduces the vendored scipy fmin (concrete run, 3 test functions): translator validation"""
    def h(ctx):
        import numpy as np
        if Ctx.mode == 'sym':
            return [('reference-transcription-validated-in-replay-mode', const(True))]
        from mystic._scipy060optimize import fmin as sfmin
        ok = True
        for fn, x0 in ((lambda x: (x[0] - 1) ** 2 + 3 * (x[1] + 2) ** 4 + abs(x[0] * x[1]), [0.3, -0.7]),
                       (lambda x: 100 * (x[1] - x[0] ** 2) ** 2 + (1 - x[0]) ** 2, [-1.2, 1.0]),
                       (lambda x: abs(x[0]) + abs(x[1] - 0.5) + abs(x[2] + 2), [1.0, 2.0, 3.0])):
            out = sfmin(fn, x0, xtol=1e-8, ftol=1e-8, maxiter=25, full_output=1, disp=0, retall=1)
            N = len(x0)
            sim = [list(x0)]
            for k in range(N):
                y = list(x0)
                y[k] = 1.05 * y[k] if y[k] != 0 else 0.00025
                sim.append(y)
            fs = [fn(v) for v in sim]
            order = sorted(range(N + 1), key=lambda i: fs[i])
            sim, fs = [sim[i] for i in order], [fs[i] for i in order]
            for it in range(25):
                sim, fs, _ = ref_nm_iteration(sim, fs, fn)
                order = sorted(range(N + 1), key=lambda i: fs[i])
                sim, fs = [sim[i] for i in order], [fs[i] for i in order]
                want = out[5][it + 1] if it + 1 < len(out[5]) else None
                if want is not None and not np.allclose(sim[0], want, rtol=1e-12, atol=1e-12):
                    ok = False
        return [('reference-transcription-matches-vendored-scipy-fmin', const(ok))]
    return h


# ----------------------------------------------------------------------------- Powell
def powell_vs_reference(dim, steps):
    def h(ctx):
        import mystic.scipy_optimize as so
        w = L.World(ctx, dim)
        alphas = []

        def brent(func, args=(), brack=None, tol=1.48e-8, full_output=0, maxiter=500):
            if Ctx.mode == 'sym':
                from symex.values import SReal
                a = SReal(ctx.fresh('alpha'))
            else:
                a = float(ctx.fresh_value('alpha', 0.0))
            f0 = L.scalar(func(0.0))
            fa = L.scalar(func(a))
            ctx.assume(le(fa, f0))
            alphas.append(a)
            return a, fa, 1, 2
        so.brent = brent
        s = S.powell_solver(dim)
        L.configure(s, w)
        x0 = ctx.reals('x', dim)
        s.population[0] = list(x0)
        traj = []
        for g in range(steps):
            s.Step()
            traj.append((L.vec(s.population[0]), L.scalar(s.popEnergy[0]), [L.vec(d) for d in s._direc]))
        real_calls = list(w.calls)
        # ---- reference: scipy fmin_powell's loop, consuming the same step lengths in order
        F = lambda x: w.f(list(x))
        it = iter(alphas)
        ref_calls = []

        def fcall(x):
            ref_calls.append(list(x))
            return F(x)

        def linesearch(p, xi):
            a = next(it)
            fcall(list(p))                                  # the contract evaluates f(p + 0*xi) ...
            xn = [p[j] + a * xi[j] for j in range(dim)]
            return fcall(xn), xn, [a * xi[j] for j in range(dim)]      # ... and f(p + alpha*xi)
        x = list(x0)
        direc = [[R(1.0) if i == j else R(0.0) for j in range(dim)] for i in range(dim)]
        fval = fcall(x)
        ref = [(list(x), fval, [list(d) for d in direc])]
        x1 = list(x)
        exhausted = False
        try:
            for outer in range(steps - 1):
                if outer > 0:
                    # construct the extrapolated point (end of the previous outer iteration in scipy's loop)
                    direc1 = [x[j] - x1[j] for j in range(dim)]
                    x2 = [R(2) * x[j] - x1[j] for j in range(dim)]
                    x1 = list(x)
                    fx2 = fcall(x2)
                    if bool(gt(fx, fx2)):
                        t = R(2.0) * (fx + fx2 - R(2.0) * fval)
                        temp = fx - fval - delta
                        t = t * temp * temp
                        temp = fx - fx2
                        t = t - delta * temp * temp
                        if bool(lt(t, 0.0)):
                            fval, x, direc1 = linesearch(x, direc1)
                            direc[bigind] = direc[-1]
                            direc[-1] = direc1
                fx = fval
                bigind = 0
                delta = R(0.0)
                for i in range(dim):
                    fx2 = fval
                    fval, x, _d = linesearch(x, direc[i])
                    if bool(gt(fx2 - fval, delta)):
                        delta = fx2 - fval
                        bigind = i
                ref.append((list(x), fval, [list(d) for d in direc]))
        except StopIteration:
            exhausted = True
        obs = [('reference-used-exactly-the-same-line-searches', const(not exhausted and next(it, None) is None))]
        for g in range(min(len(traj), len(ref))):
            obs.append(('same-point-after-step-%d' % g, veq(traj[g][0], ref[g][0])))
            obs.append(('same-energy-after-step-%d' % g, eq(traj[g][1], ref[g][1])))
        # direction set: compare the one the NEXT iteration will use (mystic applies the replacement at the start of the next step)
        obs.append(('same-evaluation-sequence', And(const(len(real_calls) == len(ref_calls)), And(*[veq(a, b) for a, b in zip(real_calls, ref_calls)]))))
        ctx.observe('fval', traj[-1][1])
        return obs
    return h


# ----------------------------------------------------------------------------- the line-search contract itself
def brent_bracket(maxiter):
    """the vendored bracket() on an uninterpreted function: the middle point is the best seen and never worse than f(0), f(1)"""
    def h(ctx):
        from mystic._scipy060optimize import bracket
        f = ctx.ufunc('g', 1)
        F = lambda a: f([a])
        try:
            xa, xb, xc, fa, fb, fc, n = bracket(F, maxiter=maxiter)
        except RuntimeError:
            return [('bracketing-longer-than-the-unrolling-bound (outside the claim)', const(True))]
        return [('values-are-the-function-at-the-points', And(eq(fa, f([xa])), eq(fb, f([xb])), eq(fc, f([xc])))),
                ('middle-not-worse-than-f(0)-and-f(1)', And(le(fb, f([0.0])), le(fb, f([1.0])))),
                ('middle-is-lowest', And(le(fb, fa), le(fb, fc)))]
    return h


def brent_optimize(maxiter):
    """Brent.optimize from any valid bracketing triple: returns (xmin, func(xmin)) with func(xmin) <= func(middle)"""
    def h(ctx):
        from mystic._scipy060optimize import brent
        f = ctx.ufunc('g', 1)
        F = lambda a: f([a])
        xa, xb, xc = ctx.real('xa'), ctx.real('xb'), ctx.real('xc')
        ctx.assume(And(lt(xa, xb), lt(xb, xc)))
        ctx.assume(And(lt(f([xb]), f([xa])), lt(f([xb]), f([xc]))))
        xmin, fval, it, n = brent(F, brack=(xa, xb, xc), full_output=1, maxiter=maxiter)
        return [('returned-value-is-the-function-at-the-returned-point', eq(fval, f([xmin]))),
                ('not-worse-than-the-bracket-middle', le(fval, f([xb]))),
                ('inside-the-bracket', And(le(xa, xmin), le(xmin, xc))),
                ('iterations-within-maxiter', const(it <= maxiter))]
    return h


# ----------------------------------------------------------------------------- DE strategies
ZDELT = (0.05 ** 2) * 0.1      # mystic's zero-coordinate offset (scipy's zdelt = 0.00025, to rounding)
NEED = {'Best1Exp': 2, 'Best1Bin': 2, 'Rand1Exp': 3, 'RandToBest1Exp': 2, 'Best2Exp': 4, 'Rand2Exp': 5, 'Rand1Bin': 3, 'RandToBest1Bin': 2,
        'Best2Bin': 4, 'Rand2Bin': 5}


def mutant(name, P, best, x, r, F, i):
    """component i of the mutant vector defined by the strategy"""
    if name.startswith('Best1'):
        return best[i] + F * (P[r[0]][i] - P[r[1]][i])
    if name.startswith('Rand1'):
        return P[r[0]][i] + F * (P[r[1]][i] - P[r[2]][i])
    if name.startswith('RandToBest1'):
        return x[i] + F * (best[i] - x[i]) + F * (P[r[0]][i] - P[r[1]][i])
    if name.startswith('Best2'):
        return best[i] + F * (P[r[0]][i] + P[r[1]][i] - P[r[2]][i] - P[r[3]][i])
    if name.startswith('Rand2'):
        return P[r[0]][i] + F * (P[r[1]][i] + P[r[2]][i] - P[r[3]][i] - P[r[4]][i])
    raise KeyError(name)


def strategy_kernel(name, dim, cand, two):
    def h(ctx):
        import mystic.strategy as st
        k = NEED[name]
        NP = k + 2
        s = S.de_class(two)(dim, NP)
        P = [ctx.reals('P%d_' % i, dim) for i in range(NP)]
        best = ctx.reals('B', dim)
        F, CR = ctx.real('F'), ctx.real('CR')
        ctx.assume(And(ge(CR, 0), le(CR, 1)))
        s.population = [list(p) for p in P]
        s.bestSolution = L.arr(best)
        s.scale, s.probability = F, CR
        if two:
            s.trialSolution = [[0.0] * dim for _ in range(NP)]
        picked = []
        real_sample = st.random.sample

        def sample(pool, n):
            pool = list(pool)
            r = real_sample(pool, n)
            picked.append((pool, list(r)))
            return r
        st.random.sample = sample
        stubs.ORACLE.log = []
        try:
            getattr(st, name)(s, cand)
        finally:
            st.random.sample = real_sample
        trial = L.vec(s.trialSolution[cand] if two else s.trialSolution)
        log = list(stubs.ORACLE.log)
        ns = [v for kk, v in log if kk == 'rr']
        us = [v for kk, v in log if kk == 'random']
        obs = [('one-sample-call-of-k-partners', const(len(picked) == 1 and len(picked[0][1]) == k))]
        if len(picked) != 1:
            return obs
        pool, r = picked[0]
        obs.append(('partners-drawn-from-the-others', const(sorted(pool) == [i for i in range(NP) if i != cand])))
        obs.append(('partners-distinct-and-not-the-candidate', const(len(set(r)) == k and cand not in r)))
        obs.append(('one-start-index-draw', const(len(ns) == 1)))
        n = ns[0] if ns else 0
        x = P[cand]
        exp_rule = name != 'Best1Bin'
        for i in range(dim):
            mi = mutant(name, P, best, x, r, F, i)
            if exp_rule:
                kpos = (i - n) % dim
                cond = And(*[lt(us[j], CR) for j in range(kpos + 1)]) if len(us) > kpos else const(False)
            else:
                cond = Or(const(i == n), lt(us[i], CR)) if len(us) > i else const(i == n)
            obs.append(('component-is-parent-or-mutant[%d]' % i, Or(eq(trial[i], x[i]), eq(trial[i], mi))))
            obs.append(('mutated-positions-follow-crossover-rule[%d]' % i, eq(trial[i], ite(cond, mi, x[i]))))
            if name.endswith('Bin') and name != 'Best1Bin':
                bcond = Or(const(i == n), lt(us[i], CR)) if len(us) > i else const(i == n)
                obs.append(('mutated-positions-follow-binomial-rule[%d]' % i, eq(trial[i], ite(bcond, mi, x[i]))))
        obs.append(('population-untouched', And(*[veq(L.vec(s.population[i]), P[i]) for i in range(NP)])))
        ctx.observe('trial', trial)
        return obs
    return h


def selection(two, dim):
    """a member is replaced only by a trial of strictly lower energy (ties keep the member)"""
    def oblig(r):
        w, pre, post = r.w, r.pre, r.post
        calls = w.calls[pre['ncalls']:]
        obs = [('one-trial-per-member', const(len(calls) == r.NP))]
        if len(calls) != r.NP:
            return obs
        for i in range(r.NP):
            ft = w.f(calls[i])
            # DE (in-place) compares with the member's current energy, which is its pre-step energy (each member is visited once)
            obs.append(('replaced-iff-strictly-lower[%d]' % i, And(Implies(lt(ft, pre['en'][i]), And(veq(post['pop'][i], calls[i]), eq(post['en'][i], ft))),
                                                                  Implies(Not(lt(ft, pre['en'][i])), And(veq(post['pop'][i], pre['pop'][i]), eq(post['en'][i], pre['en'][i]))))))
        return obs
    return S.de_step(two, 'Best1Bin', 'plain', dim, 4, 0, oblig)


def instances(tier, seed):
    q = tier == 'quick'
    out = []
    for dim in ((1, 2) if q else (1, 2, 3)):
        for ad in (False, True):
            out.append(Instance('nelder-mead/iteration-vs-scipy-fmin/dim=%d%s' % (dim, '/adaptive' if ad else ''), nm_vs_reference(dim, ad)))
        out.append(Instance('nelder-mead/initial-simplex/dim=%d' % dim, nm_initial_simplex(dim)))
    out.append(Instance('nelder-mead/reference-selftest', nm_reference_selftest(), selftest=True))
    for dim in (1, 2):
        out.append(Instance('powell/iterations-vs-scipy-fmin_powell/dim=%d/steps=3' % dim, powell_vs_reference(dim, 3), qtimeout=6000))
    if not q:
        out.append(Instance('powell/iterations-vs-scipy-fmin_powell/dim=1/steps=4', powell_vs_reference(1, 4), qtimeout=20000))
    for mi in ((0,) if q else (0, 1)):
        out.append(Instance('brent-contract/bracket/maxiter=%d' % mi, brent_bracket(mi), qtimeout=2000))
    for mi in ((0, 1, 2) if q else (0, 1, 2, 3)):
        out.append(Instance('brent-contract/optimize/maxiter=%d' % mi, brent_optimize(mi), qtimeout=4000))
    for name in NEED:
        for dim in ((1, 2) if q else (1, 2, 3)):
            for two in ((False,) if (q and dim == 2) else (False, True)):
                cands = (0, NEED[name] + 1) if q else range(NEED[name] + 2)
                if dim == 3 and NEED[name] > 3:
                    cands = (0,)
                for cand in cands:
                    out.append(Instance('strategy/%s/%s/dim=%d/candidate=%d' % (name, 'DE2' if two else 'DE', dim, cand), strategy_kernel(name, dim, cand, two)))
    for two in (False, True):
        out.append(Instance('selection/%s/dim=1' % ('DE2' if two else 'DE'), selection(two, 1)))
    return out
