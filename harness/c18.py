"""C18 - moment-imposing transforms hit their target and keep what they promise to keep.

Real code executed: math.measures.impose_mean/impose_variance/impose_std/impose_spread/impose_moment/normalize/
impose_sum/impose_weight_norm/impose_support/impose_unweighted/impose_collapse/median/mad/impose_median/impose_mad/
tmean/tvariance/impose_tmean, mean/variance/std/moment/expectation/expected_variance/ess_minimum/ess_maximum/ess_ptp/
support/spread, math.distance.Lnorm/chebyshev/hamming/minkowski/euclidean/manhattan, tools.connected.
Symbolic: samples, targets, the integrand f (uninterpreted).  Weights: enumerated rational vectors (positive, some
zero) - symbolic weights make the nonlinear-real queries time out (measured), so they are concretised and stated.
"""
import itertools
from symex.engine import Instance
from symex.values import Ctx
from symex.ob import (eq, ne, le, lt, ge, gt, And, Or, Not, Implies, Iff, const, ite, absv, maxv, minv, R,
                      sumv, isinf, veq, sqrt)
from harness import solverlib as L

PROPERTY = 'C18'
LEVEL = 'model_checking'
ASSUMPTIONS = [
    'floats modelled as exact reals (QF_NRA); NaN outside the claim',
    'weights are enumerated concrete vectors (positive, some zero, sum != 0); samples / targets / integrand symbolic',
    'non-degenerate inputs as the property states: variance > 0 and target variance > 0 for variance/std, spread > 0 for spread, sum of weights != 0',
    'sqrt is modelled by its defining property (s >= 0, s*s = x)',
    'median / trimmed-mean variants: unweighted, n <= 3 (sorting forks n! ways); third moments and expected_variance: n = 2 (cubic identities at n >= 3 exceed the nonlinear solver budget: outside the claim)',
]
BOUNDS = {'quick': dict(n='2..3', weight_vectors=3), 'thorough': dict(n='2..4', weight_vectors=6)}
BUDGET = {'quick': 1800, 'thorough': 3600}

WEIGHTS = {2: [None, [1.0, 3.0], [0.5, 0.0]], 3: [None, [0.5, 0.0, 2.0], [1.0, 1.0, 2.0]], 4: [None, [1.0, 2.0, 0.0, 0.25]]}


def W(w, n):
    return [R(1)] * n if w is None else [R(v) for v in w]


def WL(w):
    """the weight vector handed to mystic: exact rational constants when symbolic (so that weight arithmetic is not rounded in the
    model while the samples are reals), floats in replay"""
    return None if w is None else [R(v) for v in w]


def wmean(x, w):
    return sumv([a * b for a, b in zip(x, w)]) / sumv(w)


def wvar(x, w):
    m = wmean(x, w)
    return sumv([(a - m) * (a - m) * b for a, b in zip(x, w)]) / sumv(w)


def spread(x):
    return maxv(*x) - minv(*x)


def impose(which, n, w):
    def h(ctx):
        import mystic.math.measures as mm
        x = ctx.reals('x', n)
        t = ctx.real('t')
        ww = W(w, n)
        wl = WL(w)
        obs = []
        if which == 'impose_mean':
            y = L.vec(mm.impose_mean(t, list(x), wl))
            obs.append(('mean-is-target', eq(wmean(y, ww), t)))
            obs.append(('variance-kept', eq(wvar(y, ww), wvar(x, ww))))
            obs.append(('spread-kept', eq(spread(y), spread(x))))
            obs.append(('pure-shift', And(*[eq(y[i] - x[i], y[0] - x[0]) for i in range(n)])))
        elif which in ('impose_variance', 'impose_std'):
            ctx.assume(gt(wvar(x, ww), 0))
            ctx.assume(gt(t, 0))
            y = L.vec(getattr(mm, which)(t, list(x), wl))
            obs.append(('variance-is-target', eq(wvar(y, ww), t if which == 'impose_variance' else t * t)))
            obs.append(('mean-kept', eq(wmean(y, ww), wmean(x, ww))))
        elif which == 'impose_spread':
            ctx.assume(gt(spread(x), 0))
            ctx.assume(ge(t, 0))
            y = L.vec(mm.impose_spread(t, list(x), wl))
            obs.append(('spread-is-target', eq(spread(y), t)))
            obs.append(('mean-kept', eq(wmean(y, ww), wmean(x, ww))))
        elif which == 'impose_moment3':
            # third central moment, samples with a non-zero third moment
            def m3(v):
                m = wmean(v, ww)
                return sumv([(a - m) * (a - m) * (a - m) * b for a, b in zip(v, ww)]) / sumv(ww)
            ctx.assume(ne(m3(x), 0))
            y = L.vec(mm.impose_moment(t, list(x), wl, order=3, skew=False))
            obs.append(('third-moment-is-target', eq(m3(y), t)))
            obs.append(('mean-kept', eq(wmean(y, ww), wmean(x, ww))))
        ctx.observe('y', y)
        return obs
    return h


def weights_ops(which, n):
    def h(ctx):
        import mystic.math.measures as mm
        obs = []
        if which in ('normalize', 'impose_sum'):
            wt = ctx.reals('w', n)
            mass = ctx.real('mass')
            ctx.assume(ne(sumv(wt), 0))
            for v in wt:
                ctx.assume(ge(v, 0))
            out = L.vec(mm.normalize(list(wt), mass) if which == 'normalize' else mm.impose_sum(mass, list(wt)))
            obs.append(('sum-is-requested-total', eq(sumv(out), mass)))
            obs.append(('proportions-kept', And(*[eq(out[i] * wt[0], out[0] * wt[i]) for i in range(n)])))
        elif which == 'impose_weight_norm':
            x = ctx.reals('x', n)
            w = WEIGHTS[n][1]
            mass = ctx.real('mass')
            ctx.assume(gt(mass, 0))
            ys, wts = mm.impose_weight_norm(list(x), WL(w), mass)
            ys, wts = L.vec(ys), L.vec(wts)
            obs.append(('weights-sum-to-mass', eq(sumv(wts), mass)))
            obs.append(('weighted-mean-kept', eq(wmean(ys, wts), wmean(x, W(w, n)))))
        return obs
    return h


def support_ops(which, n, w, index):
    def h(ctx):
        import mystic.math.measures as mm
        x = ctx.reals('x', n)
        ww = W(w, n)
        if which == 'impose_support':
            ys, wts = mm.impose_support(index, list(x), WL(w))
            zeroed = [i for i in range(n) if i not in set(j % n for j in index)]
        elif which == 'impose_unweighted':
            ys, wts = mm.impose_unweighted(index, list(x), WL(w))
            zeroed = sorted(set(j % n for j in index))
        else:
            ys, wts = mm.impose_collapse(index, list(x), WL(w))
            zeroed = sorted(set(j % n for (i, j) in index))
        ys, wts = L.vec(ys), L.vec(wts)
        obs = []
        for i in range(n):
            if i in zeroed:
                obs.append(('designated-weight-is-zero[%d]' % i, eq(wts[i], 0)))
            elif which != 'impose_collapse':
                obs.append(('other-weight-nonzero-iff-was[%d]' % i, Iff(ne(wts[i], 0), ne(ww[i], 0))))
        obs.append(('total-weight-kept', eq(sumv(wts), sumv(ww))))
        obs.append(('weighted-mean-kept', eq(wmean(ys, wts), wmean(x, ww))))
        if which == 'impose_collapse':
            for (i, j) in index:
                obs.append(('collapsed-positions-coincide[%d,%d]' % (i, j), eq(ys[j % n], ys[i % n])))
        return obs
    return h


def definitions(n, w, cubic=True):
    def h(ctx):
        import mystic.math.measures as mm
        x = ctx.reals('x', n)
        ww = W(w, n)
        wl = WL(w)
        f = ctx.ufunc('f', 1)
        F = lambda v: f([v])
        fx = [f([v]) for v in x]
        obs = [('mean', eq(mm.mean(list(x), wl), wmean(x, ww))),
               ('variance', eq(mm.variance(list(x), wl), wvar(x, ww))),
               ('moment-0', eq(mm.moment(list(x), wl, order=0), 1)), ('moment-1', eq(mm.moment(list(x), wl, order=1), 0)),
               ('moment-2', eq(mm.moment(list(x), wl, order=2), wvar(x, ww)))]
        m = wmean(x, ww)
        if cubic:
            obs.append(('moment-3', eq(mm.moment(list(x), wl, order=3), sumv([(a - m) * (a - m) * (a - m) * b for a, b in zip(x, ww)]) / sumv(ww))))
            obs.append(('expected_variance', eq(mm.expected_variance(F, list(x), wl), wvar(fx, ww))))
        obs.append(('expectation', eq(mm.expectation(F, list(x), wl), wmean(fx, ww))))
        obs.append(('spread', eq(mm.spread(list(x)), spread(x))))
        if w is not None:
            sup = [fx[i] for i in range(n) if w[i] > 0]
            obs.append(('ess_maximum', eq(mm.ess_maximum(F, list(x), wl), maxv(*sup))))
            obs.append(('ess_minimum', eq(mm.ess_minimum(F, list(x), wl), minv(*sup))))
            obs.append(('ess_ptp', eq(mm.ess_ptp(F, list(x), wl), maxv(*sup) - minv(*sup))))
            obs.append(('support', veq(L.vec(mm.support(list(x), wl)), [x[i] for i in range(n) if w[i] > 0])))
        else:
            obs.append(('maximum', eq(mm.ess_maximum(F, list(x)), maxv(*fx))))
            obs.append(('minimum', eq(mm.ess_minimum(F, list(x)), minv(*fx))))
        return obs
    return h


def norms(n):
    def h(ctx):
        from mystic.math.distance import Lnorm
        x = ctx.reals('x', n)
        INF = float('inf')
        l2 = Lnorm(list(x), 2)
        obs = [('L1', eq(Lnorm(list(x), 1), sumv([absv(v) for v in x]))),
               ('Linf', eq(Lnorm(list(x), INF), maxv(*[absv(v) for v in x]))),
               ('L2', And(ge(l2, 0), eq(l2 * l2, sumv([v * v for v in x]))))]
        return obs
    return h


def distances(npts, dim):
    def h(ctx):
        import mystic.math.distance as D
        INF = float('inf')
        X = [ctx.reals('a%d_' % i, dim) for i in range(npts)]
        Y = [ctx.reals('b%d_' % i, dim) for i in range(npts)]
        obs = []
        a, b = X[0], Y[0]
        diffs = [absv(a[j] - b[j]) for j in range(dim)]
        obs.append(('chebyshev', eq(L.scalar(D.chebyshev(list(a), list(b), pair=True)), maxv(*diffs))))
        obs.append(('manhattan', eq(L.scalar(D.manhattan(list(a), list(b), pair=True)), sumv(diffs))))
        e = L.scalar(D.euclidean(list(a), list(b), pair=True))
        obs.append(('euclidean', And(ge(e, 0), eq(e * e, sumv([d * d for d in diffs])))))
        obs.append(('minkowski-inf-is-chebyshev', eq(L.scalar(D.minkowski(list(a), list(b), pair=True, p=INF)), maxv(*diffs))))
        hm = L.scalar(D.hamming(list(a), list(b), pair=True))
        obs.append(('hamming', eq(hm, sumv([ite(ne(a[j], b[j]), R(1), R(0)) for j in range(dim)]))))
        return obs
    return h


def order_stats(which, n):
    def h(ctx):
        import mystic.math.measures as mm
        x = ctx.reals('x', n)
        t = ctx.real('t')
        xs = sorted_terms(x)
        med = xs[n // 2] if n % 2 else (xs[n // 2 - 1] + xs[n // 2]) / R(2)
        obs = []
        if which == 'median':
            obs.append(('median', eq(L.scalar(mm.median(list(x))), med)))
        elif which == 'impose_median':
            y = L.vec(mm.impose_median(t, list(x)))
            ys = sorted_terms(y)
            medy = ys[n // 2] if n % 2 else (ys[n // 2 - 1] + ys[n // 2]) / R(2)
            obs.append(('median-is-target', eq(medy, t)))
            obs.append(('pure-shift', And(*[eq(y[i] - x[i], y[0] - x[0]) for i in range(n)])))
        elif which == 'tmean0':
            obs.append(('tmean-k=0-is-mean', eq(L.scalar(mm.tmean(list(x))), sumv(x) / R(n))))
        elif which == 'impose_tmean0':
            y = L.vec(mm.impose_tmean(t, list(x)))
            obs.append(('tmean-is-target', eq(sumv(y) / R(n), t)))
        return obs
    return h


def sorted_terms(x):
    """order statistics as terms (no forking): k-th smallest = min over subsets of size n-k+1 of the max"""
    n = len(x)
    out = []
    for k in range(1, n + 1):
        size = n - k + 1
        out.append(minv(*[maxv(*sub) for sub in itertools.combinations(x, size)]))
    return out


def instances(tier, seed):
    q = tier == 'quick'
    out = []
    ns = (2, 3) if q else (2, 3, 4)
    for which in ('impose_mean', 'impose_variance', 'impose_std', 'impose_spread'):
        for n in ns:
            for wi, w in enumerate(WEIGHTS[n]):
                if which in ('impose_variance', 'impose_std') and w is not None and sum(1 for v in w if v > 0) < 2:
                    continue          # a single supported point has zero variance: degenerate
                if which == 'impose_std' and n > 2 and q:
                    continue
                out.append(Instance('%s/n=%d/w=%s' % (which, n, w), impose(which, n, w), qtimeout=60000))
    out.append(Instance('impose_moment(order=3)/n=2/w=[1.0, 3.0]', impose('impose_moment3', 2, [1.0, 3.0]), qtimeout=60000, context_free_first=True))
    for which in ('normalize', 'impose_sum', 'impose_weight_norm'):
        for n in ns[:2]:
            out.append(Instance('%s/n=%d' % (which, n), weights_ops(which, n)))
    for n, w in ((3, [0.5, 1.0, 2.0]), (3, [1.0, 0.0, 3.0]), (4, [1.0, 2.0, 0.5, 0.25])):
        if n == 4 and q:
            continue
        for index in ([0], [0, -1], [1]):
            if w[1] == 0.0 and index == [1]:
                continue          # all remaining weight would be zero: degenerate
            out.append(Instance('impose_support/n=%d/w=%s/index=%s' % (n, w, index), support_ops('impose_support', n, w, index)))
            if not (w[1] == 0.0 and index == [0, -1]):
                out.append(Instance('impose_unweighted/n=%d/w=%s/index=%s' % (n, w, index), support_ops('impose_unweighted', n, w, index)))
        for pairs in ([(0, 1)], [(0, 2), (0, 1)], [(1, -1)], [(0, 1), (1, 2)], [(0, 1), (2, 1)], [(0, -1), (n - 1, 1)]):      # (last: one point named -1 and n-1)
            out.append(Instance('impose_collapse/n=%d/w=%s/pairs=%s' % (n, w, pairs), support_ops('impose_collapse', n, w, pairs)))
    for n in ns:
        for w in WEIGHTS[n]:
            out.append(Instance('definitions/n=%d/w=%s%s' % (n, w, '' if n == 2 else '/no-cubic'), definitions(n, w, cubic=(n == 2)), context_free_first=True))
    for n in ns:
        out.append(Instance('Lnorm/n=%d' % n, norms(n)))
    for dim in (1, 2, 3):
        out.append(Instance('distances/dim=%d' % dim, distances(1, dim)))
    for which in ('median', 'impose_median', 'tmean0', 'impose_tmean0'):
        for n in ((2, 3) if q else (2, 3, 4)):
            out.append(Instance('%s/n=%d' % (which, n), order_stats(which, n)))
    return out
