"""C20 - monitors give back exactly what was recorded (in-memory half).

Real code executed: monitors.Monitor.__call__/__len__/__getitem__/__add__/extend/prepend/get_x/get_y/_get_y/_k,
tools.listify/_kdiv/_multiply/_divide/_idivide/_cmultiply.
Symbolic: every recorded parameter vector, cost (scalar or 2-vector), id, and the scaling factors k != 0.
Enumerated: operation programs over two monitors.  A shadow list kept by the harness is the oracle.
NOT claimed: the file half (LoggingMonitor / munge readers) - decimal float printing and parsing has no solver
encoding; see DESIGN.md section 6.
"""
import itertools
from symex.engine import Instance
from symex.values import Ctx
from symex.ob import (eq, ne, le, lt, ge, gt, And, Or, Not, Implies, Iff, const, ite, absv, maxv, minv, R,
                      sumv, isinf, veq)
from harness import solverlib as L

PROPERTY = 'C20'
LEVEL = 'model_checking'
ASSUMPTIONS = [
    'floats modelled as exact reals: "cost scaling by k is transparent" is (y*k)/k == y in real arithmetic (rounding outside the claim); k != 0',
    'ids are integers or None; parameters are lists of reals (dimension <= 2); costs are reals or 2-vectors of reals',
    'file round trips (LoggingMonitor, logfile_reader, read_history, write_*_file / read_*) are NOT claimed: no solver theory of decimal float formatting',
]
BOUNDS = {'quick': dict(monitors=2, program_length='<=3', dim='1..2'), 'thorough': dict(monitors=2, program_length='<=4', dim='1..2')}
BUDGET = {'quick': 1800, 'thorough': 1800}

OPS = ('callA', 'callB', 'extend', 'prepend', 'add', 'slice', 'index', 'listindex')


def same_records(mon, shadow, tag):
    obs = [('%s-length' % tag, const(len(mon) == len(shadow) and len(mon._y) == len(shadow) and len(mon._id) == len(shadow)))]
    if len(mon) != len(shadow):
        return obs
    xs, ys, ids = mon.x, mon.y, mon.id
    for i, (x, y, d) in enumerate(shadow):
        obs.append(('%s-x[%d]' % (tag, i), veq(L.vec(xs[i]), x)))
        if isinstance(y, list):
            obs.append(('%s-y[%d]' % (tag, i), veq(L.vec(ys[i]), y)))
        else:
            obs.append(('%s-y[%d]' % (tag, i), eq(L.scalar(ys[i]), y)))
        obs.append(('%s-id[%d]' % (tag, i), const(ids[i] == d)))
    return obs


def program(prog, dim, kmode, vector_y):
    def h(ctx):
        from mystic.monitors import Monitor
        if kmode == 'none':
            kA = kB = None
        elif kmode == 'int':
            kA, kB = 2, -1              # integer scaling factors (a python list times an int is repetition, not scaling)
        elif kmode == 'A':
            kA, kB = ctx.real('kA'), None
            ctx.assume(ne(kA, 0))
        else:
            kA, kB = ctx.real('kA'), ctx.real('kB')
            ctx.assume(ne(kA, 0))
            ctx.assume(ne(kB, 0))
        A = Monitor(k=kA) if kA is not None else Monitor()
        B = Monitor(k=kB) if kB is not None else Monitor()
        sA, sB = [], []
        n = [0]

        def fresh():
            i = n[0]
            n[0] += 1
            x = ctx.reals('x%d_' % i, dim)
            y = ctx.reals('y%d_' % i, 2) if vector_y else ctx.real('y%d' % i)
            d = None if i % 2 else i
            return x, y, d
        # both monitors start with one record so that slicing/indexing is defined
        for mon, sh in ((A, sA), (B, sB)):
            x, y, d = fresh()
            mon(list(x), (list(y) if vector_y else y), d)
            sh.append((x, y, d))
        obs = []
        for j, op in enumerate(prog):
            if op in ('callA', 'callB'):
                mon, sh = (A, sA) if op == 'callA' else (B, sB)
                x, y, d = fresh()
                mon(L.arr(x) if j % 2 else list(x), (list(y) if vector_y else y), d)
                sh.append((x, y, d))
            elif op == 'extend':
                A.extend(B)
                sA.extend(sB)
            elif op == 'prepend':
                A.prepend(B)
                sA[:0] = sB
            elif op == 'add':
                C = A + B
                obs += same_records(C, sA + sB, 'add@%d' % j)
                obs.append(('add-keeps-k@%d' % j, const(C.k is A.k or (C.k is not None and A.k is not None))))
            elif op == 'slice':
                C = A[1:]
                obs += same_records(C, sA[1:], 'slice@%d' % j)
                C2 = A[::-1]
                obs += same_records(C2, sA[::-1], 'reverse-slice@%d' % j)
            elif op == 'index':
                x, y = A[len(sA) - 1]
                obs.append(('int-index-x@%d' % j, veq(L.vec(x), sA[-1][0])))
                obs.append(('int-index-y@%d' % j, veq(L.vec(y), sA[-1][1]) if vector_y else eq(L.scalar(y), sA[-1][1])))
            elif op == 'listindex':
                idx = [len(sA) - 1, 0]
                C = A[idx]
                obs += same_records(C, [sA[i] for i in idx], 'list-index@%d' % j)
            # operands are what the shadow says after every operation (nothing else was altered)
            obs += same_records(A, sA, 'A@%d' % j)
            obs += same_records(B, sB, 'B@%d' % j)
        return obs
    return h


def instances(tier, seed):
    q = tier == 'quick'
    out = []
    Lmax = 3 if q else 4
    progs = []
    for l in range(1, Lmax + 1):
        for p in itertools.product(OPS, repeat=l):
            if l >= 3 and q and not (('extend' in p or 'prepend' in p or 'add' in p) and ('slice' in p or 'index' in p or 'listindex' in p or 'callA' in p)):
                continue
            if l == 4 and len(set(p)) < 3:
                continue
            progs.append(p)
    for p in progs:
        variants = [(1, 'none', False), (2, 'AB', False)] if len(p) >= 3 else [(1, 'none', False), (2, 'A', False), (2, 'AB', False), (1, 'AB', True), (1, 'int', True), (1, 'int', False)]
        for dim, km, vy in variants:
            out.append(Instance('program/%s/dim=%d/k=%s/%s' % ('-'.join(p), dim, km, 'vecy' if vy else 'y'), program(p, dim, km, vy)))
    return out
