"""C20 - monitors give back exactly what was recorded, in memory and through their files.

Real code executed: monitors.Monitor.__call__/__len__/__getitem__/__add__/extend/prepend/get_x/get_y/_get_y/_k,
tools.listify/_kdiv/_multiply/_divide/_idivide/_cmultiply; monitors.LoggingMonitor.__init__/__call__,
munge.logfile_reader/read_trajectories/read_history/read_monitor/write_monitor/raw_to_support/raw_to_converge/
write_raw_file/write_support_file/write_converge_file/read_raw_file/read_support_file/read_converge_file/read_import/_process_ids.
Symbolic: every recorded parameter vector, cost (scalar or 2-vector), id (integer or None), the scaling factors k != 0.
Enumerated: operation programs over two monitors; number of records, containers, intervals.  A shadow list kept by the
harness is the oracle.  In the file half symbolic scalars are printed as tokens that evaluate back to themselves
(symex.values.TOKEN_REPR): the decimal text of floats is NOT decided, the structure of the files is.
"""
import itertools
from symex.engine import Instance
from symex.values import Ctx
from symex.ob import (eq, ne, le, lt, ge, gt, And, Or, Not, Implies, Iff, const, ite, absv, maxv, minv, R,
                      sumv, isinf, veq)
from harness import solverlib as L

PROPERTY = 'C20'
LEVEL = 'model_checking'
ASSUMPTIONS = [
    'floats modelled as exact reals: "cost scaling by k is transparent" is (y*k)/k == y in real arithmetic (rounding outside the claim); k != 0',
    'ids are integers or None; parameters are lists of reals (dimension <= 2); costs are reals or 2-vectors of reals',
    'file round trips: symbolic scalars are written as tokens (Python expressions evaluating back to the same symbol), so decimal float formatting / parsing is outside the claim; the concrete specials inf, -inf, nan and every replayed witness go through the real formatting',
    'files live in a fresh temporary directory per execution; importlib caches are invalidated before a written .py file is imported by the readers',
]
BOUNDS = {'quick': dict(monitors=2, program_length='<=3', dim='1..2', file_records='2..4', intervals='1..3'), 'thorough': dict(monitors=2, program_length='<=4', dim='1..3', file_records='1..5', intervals='1..3')}
BUDGET = {'quick': 1800, 'thorough': 1800}

OPS = ('callA', 'callB', 'extend', 'prepend', 'add', 'slice', 'index', 'listindex')


def same_records(mon, shadow, tag):
    obs = [('%s-length' % tag, const(len(mon) == len(shadow) and len(mon._y) == len(shadow) and len(mon._id) == len(shadow)))]
    if len(mon) != len(shadow):
        return obs
    xs, ys, ids = mon.x, mon.y, mon.id
    for i, (x, y, d) in enumerate(shadow):
        obs.append(('%s-x[%d]' % (tag, i), veq(L.vec(xs[i]), x)))
        if isinstance(y, list):
            obs.append(('%s-y[%d]' % (tag, i), veq(L.vec(ys[i]), y)))
        else:
            obs.append(('%s-y[%d]' % (tag, i), eq(L.scalar(ys[i]), y)))
        obs.append(('%s-id[%d]' % (tag, i), const(ids[i] == d)))
    return obs


def program(prog, dim, kmode, vector_y):
    def h(ctx):
        from mystic.monitors import Monitor
        if kmode == 'none':
            kA = kB = None
        elif kmode == 'int':
            kA, kB = 2, -1              # integer scaling factors (a python list times an int is repetition, not scaling)
        elif kmode == 'A':
            kA, kB = ctx.real('kA'), None
            ctx.assume(ne(kA, 0))
        else:
            kA, kB = ctx.real('kA'), ctx.real('kB')
            ctx.assume(ne(kA, 0))
            ctx.assume(ne(kB, 0))
        A = Monitor(k=kA) if kA is not None else Monitor()
        B = Monitor(k=kB) if kB is not None else Monitor()
        sA, sB = [], []
        n = [0]

        def fresh():
            i = n[0]
            n[0] += 1
            x = ctx.reals('x%d_' % i, dim)
            y = ctx.reals('y%d_' % i, 2) if vector_y else ctx.real('y%d' % i)
            d = None if i % 2 else i
            return x, y, d
        # both monitors start with one record so that slicing/indexing is defined
        for mon, sh in ((A, sA), (B, sB)):
            x, y, d = fresh()
            mon(list(x), (list(y) if vector_y else y), d)
            sh.append((x, y, d))
        obs = []
        for j, op in enumerate(prog):
            if op in ('callA', 'callB'):
                mon, sh = (A, sA) if op == 'callA' else (B, sB)
                x, y, d = fresh()
                mon(L.arr(x) if j % 2 else list(x), (list(y) if vector_y else y), d)
                sh.append((x, y, d))
            elif op == 'extend':
                A.extend(B)
                sA.extend(sB)
            elif op == 'prepend':
                A.prepend(B)
                sA[:0] = sB
            elif op == 'add':
                C = A + B
                obs += same_records(C, sA + sB, 'add@%d' % j)
                obs.append(('add-keeps-k@%d' % j, const(C.k is A.k or (C.k is not None and A.k is not None))))
            elif op == 'slice':
                C = A[1:]
                obs += same_records(C, sA[1:], 'slice@%d' % j)
                C2 = A[::-1]
                obs += same_records(C2, sA[::-1], 'reverse-slice@%d' % j)
            elif op == 'index':
                x, y = A[len(sA) - 1]
                obs.append(('int-index-x@%d' % j, veq(L.vec(x), sA[-1][0])))
                obs.append(('int-index-y@%d' % j, veq(L.vec(y), sA[-1][1]) if vector_y else eq(L.scalar(y), sA[-1][1])))
            elif op == 'listindex':
                idx = [len(sA) - 1, 0]
                C = A[idx]
                obs += same_records(C, [sA[i] for i in idx], 'list-index@%d' % j)
            # operands are what the shadow says after every operation (nothing else was altered)
            obs += same_records(A, sA, 'A@%d' % j)
            obs += same_records(B, sB, 'B@%d' % j)
        return obs
    return h


# ----------------------------------------------------------------------------- the file half
# Symbolic scalars are written as tokens (symex.values.TOKEN_REPR): Python expressions that the readers' eval / import turn back
# into the very same symbolic object.  So WHICH fields are written for which call, in which order and nesting, how ids / scaling
# / intervals / containers are treated and how the lines are parsed back is decided by the solver over all values and ids;
# the decimal text of a float is not (concrete special values inf, -inf, nan and the replayed witnesses go through the real
# formatting).
import math
import os
import shutil
import tempfile
import uuid

INF = float('inf')
NAN = float('nan')


def same(a, b):
    """parsed value a is the recorded value b (nan-aware for the concrete special values)"""
    if isinstance(b, float) and math.isnan(b):
        return const(isinstance(a, float) and math.isnan(a))
    if isinstance(a, float) and math.isnan(a):
        return const(False)
    return eq(L.scalar(a), b)


def flat(v):
    """numbers of a nested list / tuple / array structure in reading order"""
    import numpy
    if isinstance(v, (list, tuple)) or (isinstance(v, numpy.ndarray) and v.ndim > 0):
        out = []
        for e in v:
            out += flat(e)
        return out
    return [v]


def same_seq(a, b):
    a, b = flat(a), flat(b)
    if len(a) != len(b):
        return const(False)
    return And(*[same(u, v) for u, v in zip(a, b)]) if a else const(True)


def record(ctx, i, dim, idmode, xkind, ykind):
    x = list(ctx.reals('x%d_' % i, dim))
    if xkind == 'special' and i == 0:
        x[0] = -INF
    if ykind == 'vector':
        y = list(ctx.reals('y%d_' % i, 2))
    elif ykind == 'special':
        y = (INF, NAN, -INF)[i % 3]
    else:
        y = ctx.real('y%d' % i)
    if idmode == 'none' or (idmode == 'mixed' and i % 2):
        ident = None
    else:
        ident = ctx.int('id%d' % i, 0, 2)
    xarg = tuple(x) if xkind == 'tuple' else (L.arr(x) if xkind == 'array' else (x[0] if xkind == 'scalar' else list(x)))
    yarg = tuple(y) if ykind == 'vector' and i % 2 else (list(y) if ykind == 'vector' else y)
    return x, y, ident, xarg, yarg


def _setup(ctx):
    import numbers
    from symex import values as V
    numbers.Integral.register(V.SInt)          # ids are integers for mystic's isinstance tests
    V.TOKEN_REPR = Ctx.mode == 'sym'
    return V, tempfile.mkdtemp(prefix='verif-c20-')


def id_is(a, ident):
    if ident is None:
        return const(a is None)
    if a is None:
        return const(False)
    return eq(a, ident)


def logfile(n, dim, idmode, xkind, ykind, interval, kmode):
    """LoggingMonitor -> log file -> logfile_reader / read_trajectories / read_history"""
    def h(ctx):
        from mystic.monitors import LoggingMonitor
        import mystic.munge as mg
        V, d = _setup(ctx)
        fn = os.path.join(d, 'log.txt')
        try:
            if kmode == 'none':
                m = LoggingMonitor(interval, fn)
            else:
                k = ctx.real('k') if kmode == 'sym' else -1
                if kmode == 'sym':
                    ctx.assume(ne(k, 0))
                m = LoggingMonitor(interval, fn, k=k)
            recs = []
            for i in range(n):
                x, y, ident, xarg, yarg = record(ctx, i, dim, idmode, xkind, ykind)
                if ident is None:
                    m(xarg, yarg)
                else:
                    m(xarg, yarg, ident)
                recs.append((x, y, ident))
            try:
                step, param, cost = mg.logfile_reader(fn, iter=True)
                param2, cost2 = mg.read_trajectories(fn)
                # (read_history of a MONITOR that recorded bare scalars as parameters raises in mystic; only the file side is checked then)
                hist_file = mg.read_history(fn) if interval == 1 and xkind != 'scalar' else None
                hist_mon = mg.read_history(m) if interval == 1 and xkind != 'scalar' else None
            except Exception as e:
                ctx.note('reader raised %s: %s' % (type(e).__name__, e))
                return [('what-was-written-can-be-read-back', const(False))]
        finally:
            V.TOKEN_REPR = False
            shutil.rmtree(d, ignore_errors=True)
        logged = [i for i in range(n) if i % interval == 0]
        obs = [('one-line-per-logged-call', const(len(step) == len(logged) and len(param) == len(logged) and len(cost) == len(logged)))]
        if len(step) != len(logged) or len(param) != len(logged) or len(cost) != len(logged):
            return obs
        for j, i in enumerate(logged):
            x, y, ident = recs[i]
            st = step[j]
            obs.append(('iteration[%d]' % i, const(isinstance(st, tuple) and len(st) == (1 if ident is None else 2) and st[0] == i)))
            if ident is not None and isinstance(st, tuple) and len(st) == 2:
                obs.append(('id[%d]' % i, id_is(st[1], ident)))
            obs.append(('params[%d]' % i, same_seq(param[j], x)))
            obs.append(('params-are-a-flat-list-of-the-recorded-length[%d]' % i, const(isinstance(param[j], (list, tuple)) and len(param[j]) == dim
                                                                                        and not any(isinstance(e, (list, tuple)) for e in param[j]))))
            obs.append(('cost[%d]' % i, same_seq(cost[j], y)))
            obs.append(('cost-keeps-shape[%d]' % i, const(isinstance(cost[j], (list, tuple)) == isinstance(y, list))))
        obs.append(('read_trajectories==logfile_reader', And(same_seq(param2, param), same_seq(cost2, cost))))
        if hist_file is not None:
            obs.append(('read_history(file)==read_history(monitor)', And(same_seq(hist_file[0], hist_mon[0]), same_seq(hist_file[1], hist_mon[1]))))
            # ... and that is the recorded trajectory, one parameter at a time
            obs.append(('read_history-is-the-trajectory', And(same_seq(hist_mon[0], [[r[0][c] for r in recs] for c in range(dim)]),
                                                               same_seq(hist_mon[1], [r[1] for r in recs]))))
        return obs
    return h


def pyfile(kind, n, dim, idmode, ykind):
    """Monitor -> write_raw_file / write_support_file / write_converge_file -> matching reader and read_history"""
    def h(ctx):
        from mystic.monitors import Monitor
        import mystic.munge as mg
        V, d = _setup(ctx)
        fn = os.path.join(d, 'p%s.py' % uuid.uuid4().hex[:12])          # (imported by name: a fresh module name per execution)
        try:
            m = Monitor()
            recs = []
            for i in range(n):
                x, y, ident, xarg, yarg = record(ctx, i, dim, idmode, 'list', ykind)
                if ident is None:
                    m(xarg, yarg)
                else:
                    m(xarg, yarg, ident)
                recs.append((x, y, ident))
            writer = dict(raw=mg.write_raw_file, support=mg.write_support_file, converge=mg.write_converge_file)[kind]
            reader = dict(raw=mg.read_raw_file, support=mg.read_support_file, converge=mg.read_converge_file)[kind]
            writer(m, fn)
            import importlib
            importlib.invalidate_caches()        # (the readers import the file by name from '.'; directory listings are cached per path entry)
            try:
                got = reader(fn, iter=True)
                ids = got[0]
                params, cost = (got[1], got[2]) if kind == 'raw' else got[1]
                plain = reader(fn)
                hist = mg.read_history(fn) if kind == 'support' else None
                hist_mon = mg.read_history(m) if kind == 'support' else None
            except Exception as e:
                ctx.note('reader raised %s: %s' % (type(e).__name__, e))
                return [('what-was-written-can-be-read-back', const(False))]
        finally:
            V.TOKEN_REPR = False
            shutil.rmtree(d, ignore_errors=True)
        obs = []
        by_call = [r[0] for r in recs]
        by_param = [[r[0][c] for r in recs] for c in range(dim)]
        obs.append(('params-are-the-trajectory', same_seq(params, by_param if kind == 'support' else by_call)))
        obs.append(('cost-is-the-trajectory', same_seq(cost, [r[1] for r in recs])))
        obs.append(('reader-without-iter-agrees', And(same_seq(plain[0], params), same_seq(plain[1], cost))))
        obs.append(('one-iteration-entry-per-call', const(ids is not None and len(ids) == n)))
        if ids is not None and len(ids) == n:
            allnone = all(r[2] is None for r in recs)
            for i in range(n):
                if allnone:
                    obs.append(('iteration[%d]' % i, const(tuple(ids[i]) == (i,))))
                else:
                    obs.append(('id[%d]' % i, id_is(ids[i][-1], recs[i][2]) if len(ids[i]) == 2 else const(False)))
        if hist is not None:
            obs.append(('read_history(file)==read_history(monitor)', And(same_seq(hist[0], hist_mon[0]), same_seq(hist[1], hist_mon[1]))))
        return obs
    return h


def file_instances(tier):
    q = tier == 'quick'
    out = []
    grid = []
    for n in ((2,) if q else (1, 2, 3)):
        for idmode in ('none', 'sym', 'mixed'):
            for xkind in ('list', 'array') if q else ('list', 'tuple', 'array'):
                grid.append((n, 2, idmode, xkind, 'scalar', 1, 'none'))
        grid.append((n, 1, 'sym', 'scalar', 'scalar', 1, 'none'))
        grid.append((n, 1, 'none', 'list', 'vector', 1, 'none'))
        grid.append((n, 2, 'sym', 'list', 'vector', 1, 'sym'))
        grid.append((n, 1, 'none', 'list', 'scalar', 1, 'sym'))
        grid.append((n, 1, 'sym', 'list', 'scalar', 1, 'int'))
        grid.append((n, 2, 'mixed', 'special', 'special', 1, 'none'))
    grid.append((3, 1, 'sym', 'list', 'scalar', 2, 'none'))
    grid.append((4, 1, 'none', 'list', 'scalar', 3, 'sym'))
    if not q:
        grid.append((5, 2, 'mixed', 'array', 'vector', 2, 'none'))
        grid.append((3, 3, 'sym', 'array', 'special', 1, 'none'))
    for g in grid:
        out.append(Instance('logfile/n=%d/dim=%d/id=%s/x=%s/y=%s/interval=%d/k=%s' % g, logfile(*g)))
    out.append(Instance('pyfile/raw/n=3/dim=1/id=sym/y=scalar', pyfile('raw', 3, 1, 'sym', 'scalar')))       # (ids a, b, a: first == last, not all equal)
    for kind in ('raw', 'support', 'converge'):
        for n in ((2,) if q else (1, 2, 3)):
            for idmode in ('none', 'sym', 'mixed'):
                for ykind in ('scalar',) if (q and idmode != 'sym') else ('scalar', 'special', 'vector'):
                    out.append(Instance('pyfile/%s/n=%d/dim=2/id=%s/y=%s' % (kind, n, idmode, ykind), pyfile(kind, n, 2, idmode, ykind)))
    return out


def instances(tier, seed):
    q = tier == 'quick'
    out = file_instances(tier)
    Lmax = 3 if q else 4
    progs = []
    for l in range(1, Lmax + 1):
        for p in itertools.product(OPS, repeat=l):
            if l >= 3 and q and not (('extend' in p or 'prepend' in p or 'add' in p) and ('slice' in p or 'index' in p or 'listindex' in p or 'callA' in p)):
                continue
            if l == 4 and len(set(p)) < 3:
                continue
            progs.append(p)
    for p in progs:
        variants = [(1, 'none', False), (2, 'AB', False)] if len(p) >= 3 else [(1, 'none', False), (2, 'A', False), (2, 'AB', False), (1, 'AB', True), (1, 'int', True), (1, 'int', False)]
        for dim, km, vy in variants:
            out.append(Instance('program/%s/dim=%d/k=%s/%s' % ('-'.join(p), dim, km, 'vecy' if vy else 'y'), program(p, dim, km, vy)))
    return out
