"""C13 - compiled constraint functions enforce exactly the stated relation.

Real code executed: symbolic.constraints_parser/generate_solvers/generate_constraint (exec-generated solver
functions incl. builtin max/min, math.approx.tolerance, numpy equal/any), coupler.inner composition,
constraints.boundsconstrain/symbolic.symbolic_bounds/simplify (bounds constraint).
The generated function objects are CALLED on a solver-quantified input vector; the relation is an independent
z3 reading of the text written by the harness (not derived from mystic's parser).
Floats: strictness of '<' / '>' is a separate QF_FP lemma over math.approx.tolerance's kernel (all doubles |r|<=1e300).
"""
import ast
import inspect
from symex.engine import Instance
from symex.values import Ctx
from symex import stubs
from symex.ob import (eq, ne, le, lt, ge, gt, And, Or, Not, Implies, Iff, const, ite, absv, maxv, minv, R,
                      sumv, isinf, veq, CBool)
from harness import solverlib as L
from symex import ob as _ob
_ob.RTOL = 0.0      # this property is about exact pass-through and 1e-15 tolerance bands: replay compares exactly

PROPERTY = 'C13'
LEVEL = 'model_checking'
ASSUMPTIONS = [
    'floats modelled as exact reals for the relation/identity/selectivity obligations; strictness under IEEE doubles is the separate QF_FP lemma (|rhs| <= 1e300, round-to-nearest-even)',
    'relations are in isolated form (one variable alone on the left); multi-line systems have left-hand variables that do not feed one another',
    'identity on already-feasible input: exact for non-strict comparators, "=" and "!="; for strict comparators it is a hard obligation with margin '
    '>= tolerance(rhs) and a recorded finding inside the tolerance band (known_findings.txt)',
]
BOUNDS = {'quick': dict(nvars='<=3', texts=40), 'thorough': dict(nvars='<=4', texts=120)}
BUDGET = {'quick': 1800, 'thorough': 1800}

CMPS = ('<', '<=', '>', '>=', '=', '==', '!=')
TOL, REL = 1e-15, 1e-15


def rel(cmp, a, b):
    return {'<': lt, '<=': le, '>': gt, '>=': ge, '=': eq, '==': eq, '!=': ne}[cmp](a, b)


def tolerance(v, tol=None, rel=None):
    tol = TOL if tol is None else tol
    rel = REL if rel is None else rel
    if isinstance(v, float):          # a constant right-hand side: mystic computes its tolerance in floats
        return tol + abs(v) * rel
    return R(tol) + absv(v) * R(rel)


# right-hand sides: (text, function of the variable vector, variables used)
def rhs_pool(names):
    a, b, c = names[1], names[2], names[3 % len(names)]
    return [
        ('2.5', lambda x: 2.5),
        ('-3', lambda x: -3.0),
        ('%s' % a, lambda x: x[1]),
        ('2*%s + 3' % a, lambda x: R(2) * x[1] + R(3)),
        ('%s*%s - 1.5' % (a, b), lambda x: x[1] * x[2] - R(1.5)),
        ('abs(%s)' % a, lambda x: absv(x[1])),
        ('%s - 0.5*%s' % (a, b), lambda x: x[1] - R(0.5) * x[2]),
        ('1e6*%s' % b, lambda x: R(1e6) * x[2]),
    ]


def single(cmp, rhs_text, rhs_fn, n, names, named, tolrel=None):
    text = '%s %s %s' % (names[0], cmp, rhs_text)

    def h(ctx):
        import mystic.symbolic as ms
        kw = dict(variables=list(names[:n])) if named else dict(nvars=n)
        if tolrel is not None:
            # user-chosen absolute / relative strictness (documented: locals={'tol': ..., 'rel': ...}); dyadic, clearly different
            kw['locals'] = dict(tol=tolrel[0], rel=tolrel[1])

        def tolerance(v, _t=globals()['tolerance']):
            return _t(v, *tolrel) if tolrel is not None else _t(v)
        cf = ms.generate_constraint(ms.generate_solvers(text, **kw))
        x = ctx.reals('x', n)
        y = L.vec(cf(list(x)))
        r_in, r_out = rhs_fn(x), rhs_fn(y)
        obs = [('relation-holds-on-output', rel(cmp, y[0], r_out))]
        for i in range(1, n):
            obs.append(('other-coordinate-untouched[%d]' % i, eq_exact(y[i], x[i])))
        sat = rel(cmp, x[0], r_in)
        same = And(*[eq_exact(y[i], x[i]) for i in range(n)])
        if cmp in ('<', '>'):
            margin = le(x[0], r_in - tolerance(r_in)) if cmp == '<' else ge(x[0], r_in + tolerance(r_in))
            obs.append(('identity-on-feasible-input-with-margin', Implies(margin, same)))
            obs.append(('identity-on-feasible-input-inside-tolerance-band', Implies(And(sat, Not(margin)), same)))
            obs.append(('moves-at-most-to-the-tolerance-boundary', Or(same, eq(y[0], r_in - tolerance(r_in) if cmp == '<' else r_in + tolerance(r_in)))))
        else:
            obs.append(('identity-on-feasible-input', Implies(sat, same)))
        obs.append(('length-preserved', const(len(y) == n)))
        ctx.observe('y0', y[0])
        return obs
    return h, text


def eq_exact(a, b):
    """equality that is exact also in concrete replay (the identity obligations are about bit-identical pass-through)"""
    if Ctx.mode == 'sym':
        return eq(a, b)
    return CBool(float(a) == float(b))


MULTI = [
    # (text, nvars, [(lhs index, cmp, rhs fn)])
    ('x0 <= 2*x2\nx1 >= x3 - 1', 4, [(0, '<=', lambda x: R(2) * x[2]), (1, '>=', lambda x: x[3] - R(1))]),
    ('x0 = x2 + x3\nx1 < 5', 4, [(0, '=', lambda x: x[2] + x[3]), (1, '<', lambda x: 5.0)]),
    ('x0 > 1\nx1 != 2\nx2 <= -1', 3, [(0, '>', lambda x: 1.0), (1, '!=', lambda x: 2.0), (2, '<=', lambda x: -1.0)]),
    ('x2 >= 0\nx2 <= 10', 3, [(2, '>=', lambda x: 0.0), (2, '<=', lambda x: 10.0)]),
    ('x10 >= x2\nx1 = 3', 11, [(10, '>=', lambda x: x[2]), (1, '=', lambda x: 3.0)]),
]


def multi(text, n, rels):
    def h(ctx):
        import mystic.symbolic as ms
        stubs.ORACLE.override = None
        cf = ms.generate_constraint(ms.generate_solvers(text, nvars=n))
        x = ctx.reals('x', n)
        y = L.vec(cf(list(x)))
        obs = []
        lhs = set(i for i, _, _ in rels)
        for k, (i, cmp, f) in enumerate(rels):
            obs.append(('relation-%d-holds-on-output' % k, rel(cmp, y[i], f(y))))
        for i in range(n):
            if i not in lhs:
                obs.append(('other-coordinate-untouched[%d]' % i, eq_exact(y[i], x[i])))
        allsat = And(*[(rel(cmp, x[i], f(x)) if cmp not in ('<', '>') else
                        (le(x[i], f(x) - tolerance(f(x))) if cmp == '<' else ge(x[i], f(x) + tolerance(f(x))))) for i, cmp, f in rels])
        obs.append(('identity-on-feasible-input(with margin for strict lines)', Implies(allsat, And(*[eq_exact(y[i], x[i]) for i in range(n)]))))
        return obs
    return h


GROUPED_RELS = [(0, '>=', lambda x: 1.0), (1, '>=', lambda x: 2.0), (2, '<=', lambda x: 3.0), (3, '=', lambda x: R(2) * x[4])]
GROUPED_LINES = ['x0 >= 1', 'x1 >= 2', 'x2 <= 3', 'x3 = 2*x4']
GROUPINGS = {
    'one-block': '\n'.join(GROUPED_LINES),
    'one-per-string': tuple(GROUPED_LINES),
    'two-groups': ('\n'.join(GROUPED_LINES[:2]), '\n'.join(GROUPED_LINES[2:])),
    'uneven-groups': ('\n'.join(GROUPED_LINES[:3]), GROUPED_LINES[3]),
    'uneven-groups-2': (GROUPED_LINES[0], '\n'.join(GROUPED_LINES[1:])),
}


def grouped(form, join):
    """the same independent relations handed to generate_solvers as one block / a tuple of strings / tuples of multi-line strings"""
    def h(ctx):
        import mystic.symbolic as ms
        import mystic.constraints as mc
        n = 5
        solvers = ms.generate_solvers(GROUPINGS[form], nvars=n)
        cf = ms.generate_constraint(solvers, join=getattr(mc, join)) if join else ms.generate_constraint(solvers)
        x = ctx.reals('x', n)
        y = L.vec(cf(list(x)))
        obs = []
        for k, (i, cmp, f) in enumerate(GROUPED_RELS):
            obs.append(('relation-%d-holds-on-output' % k, rel(cmp, y[i], f(y))))
        obs.append(('other-coordinate-untouched[4]', eq_exact(y[4], x[4])))
        allsat = And(*[rel(cmp, x[i], f(x)) for i, cmp, f in GROUPED_RELS])
        obs.append(('identity-on-feasible-input', Implies(allsat, And(*[eq_exact(y[i], x[i]) for i in range(n)]))))
        return obs
    return h


BOXES = [([0.0, -1.0], [1.0, 4.0]), ([-2.0], [3.5]), ([1.0, 2.0, -5.0], [1.0, 1e20, 5.0]), ([-1e20, 0.0], [0.0, 1e20])]


def bounds(lo, hi):
    n = len(lo)

    def h(ctx):
        from mystic.constraints import boundsconstrain
        stubs.ORACLE.override = FixedDraws()
        try:
            cf = boundsconstrain(list(lo), list(hi))
        finally:
            stubs.ORACLE.override = None
        x = ctx.reals('x', n)
        y = L.vec(cf(list(x)))
        obs = []
        for i in range(n):
            obs.append(('clipped-into-box[%d]' % i, eq(y[i], minv(maxv(x[i], R(lo[i])), R(hi[i])))))
            obs.append(('identity-inside[%d]' % i, Implies(And(le(R(lo[i]), x[i]), le(x[i], R(hi[i]))), eq_exact(y[i], x[i]))))
        return obs
    return h


class FixedDraws(object):
    def random(self):
        return 0.95

    def randrange(self, n):
        return 0


def fp_lemma():
    """strictness in IEEE doubles: for every finite r with |r| <= 1e300,  r - tol(r) < r < r + tol(r)  and
    min(r - tol(r), x) < r,  max(r + tol(r), x) > r, where tol is read from math.approx.tolerance's source"""
    def h(ctx):
        if Ctx.mode != 'sym':
            return [('fp-lemma', CBool(True))]
        import z3
        import mystic.math.approx as ap
        src = inspect.getsource(ap.tolerance)
        tree = ast.parse(src).body[0]
        ret = [n for n in ast.walk(tree) if isinstance(n, ast.Return)][0].value
        defaults = dict(zip([a.arg for a in tree.args.args][-len(tree.args.defaults):], [ast.literal_eval(d) for d in tree.args.defaults]))
        F, rm = z3.Float64(), z3.RNE()
        r = z3.FP('r', F)

        def tr(n):
            if isinstance(n, ast.BinOp):
                a, b = tr(n.left), tr(n.right)
                if isinstance(n.op, ast.Add):
                    return z3.fpAdd(rm, a, b)
                if isinstance(n.op, ast.Sub):
                    return z3.fpSub(rm, a, b)
                if isinstance(n.op, ast.Mult):
                    return z3.fpMul(rm, a, b)
                raise NotImplementedError(ast.dump(n))
            if isinstance(n, ast.Call) and getattr(n.func, 'id', None) == 'abs':
                return z3.fpAbs(tr(n.args[0]))
            if isinstance(n, ast.Name):
                if n.id == 'x':
                    return r
                return z3.FPVal(defaults[n.id], F)
            if isinstance(n, ast.Constant):
                return z3.FPVal(float(n.value), F)
            raise NotImplementedError(ast.dump(n))
        tol = tr(ret)
        lo, hi = z3.fpSub(rm, r, tol), z3.fpAdd(rm, r, tol)
        s = z3.Solver()
        s.set('timeout', 240000)
        s.add(z3.Not(z3.fpIsNaN(r)), z3.Not(z3.fpIsInf(r)), z3.fpLEQ(z3.fpAbs(r), z3.FPVal(1e300, F)))
        s.add(z3.Or(z3.Not(z3.fpLT(lo, r)), z3.Not(z3.fpGT(hi, r))))
        res = str(s.check())
        ctx.note('QF_FP strictness lemma over tolerance() kernel %r: z3 %s' % (ast.unparse(ret), res))
        if res == 'unknown':
            from symex.values import Unsupported
            raise Unsupported('QF_FP lemma: solver unknown')
        from symex.values import SBool
        return [('strict-in-doubles: r - tol(r) < r < r + tol(r) for all finite |r| <= 1e300', SBool(z3.BoolVal(res == 'unsat')))]
    return h


def instances(tier, seed):
    q = tier == 'quick'
    out = []
    idx = ['x0', 'x1', 'x2', 'x3']
    nam = ['u', 'vv', 'w', 'z']
    pool = rhs_pool(idx)
    for cmp in CMPS:
        for k, (rt, rf) in enumerate(pool):
            if q and k not in (0, 2, 3, 4, 5) and cmp not in ('<', '>='):
                continue
            h, text = single(cmp, rt, rf, 3, idx, False)
            out.append(Instance('single/%s' % text.replace(' ', ''), h))
    for cmp in (('<', '>=', '!=') if q else CMPS):
        for k, (rt, rf) in enumerate(rhs_pool(nam)[2:6]):
            h, text = single(cmp, rt, rf, 4 if not q else 3, nam, True)
            out.append(Instance('named/%s' % text.replace(' ', ''), h))
    for cmp in ('<', '>'):
        for k in ((0, 2) if q else (0, 1, 2, 3, 5)):
            rt, rf = pool[k]
            # (tol > 0: with tol = 0 a zero right-hand side leaves no strictness margin at all - the user's own setting)
            for tr in ((0.5, 0.0), (0.25, 1.0), (0.125, 0.5)) if not q else ((0.5, 0.0), (0.125, 0.5)):
                h, text = single(cmp, rt, rf, 3, idx, False, tolrel=tr)
                out.append(Instance('single/%s/tol=%s/rel=%s' % (text.replace(' ', ''), tr[0], tr[1]), h))
    for text, n, rels in MULTI:
        out.append(Instance('multi/%s' % text.replace('\n', ';').replace(' ', ''), multi(text, n, rels)))
    for form in GROUPINGS:
        out.append(Instance('grouped/%s' % form, grouped(form, None)))
    out.append(Instance('grouped/two-groups/join=and_', grouped('two-groups', 'and_')))
    for lo, hi in (BOXES[:3] if q else BOXES):
        out.append(Instance('bounds/%s..%s' % (lo, hi), bounds(lo, hi)))
    out.append(Instance('fp-lemma/strictness', fp_lemma(), qtimeout=250000))
    return out
