"""C11 - dimensional collapse is detected per definition, applied exactly, reported once.

Real code executed: collapse.collapse_at/collapse_as/collapse_weight/collapse_position/selector/_weight_filter/
_position_filter/collapsed, monitors._solutions/_weights/_positions, tools.pairwise, termination.CollapseAt/CollapseAs/Or/
state/type, mask.update_mask/_extend_mask, AbstractSolver.Collapsed/Collapse/__collapse_termination/
__collapse_constraints/SetConstraints/SetTermination/Step/_Solve, constraints.impose_at/impose_as, tools.chain/select_params.
Symbolic: the recorded parameter history, tolerances (detectors), targets, the cost after a collapse.
Enumerated: history length / window, dimension, mask formats, solver type.
"""
import itertools
from symex.engine import Instance
from symex.values import Ctx
from symex import stubs
from symex.ob import (eq, ne, le, lt, ge, gt, And, Or, Not, Implies, Iff, const, ite, absv, maxv, minv, R,
                      sumv, isinf, veq)
from harness import solverlib as L
from harness import steps as S

PROPERTY = 'C11'
LEVEL = 'model_checking'
ASSUMPTIONS = [
    'floats modelled as exact reals; NaN outside the claim',
    'detectors: the step-monitor history and the tolerance are solver variables; window <= history length',
    'application: termination parameters (tolerance, target, window) are concrete (they are printed into and parsed back from the termination message), '
    'the recorded history, the simplex / population and the cost are symbolic; one Collapse() followed by real Steps',
    'collapse_cost (numpy pad/dstack/diff pipeline) and "the solve still terminates" beyond the unrolled steps are outside the claim',
]
BOUNDS = {'quick': dict(history='<=3 records', n='<=3', steps_after_collapse=1), 'thorough': dict(history='<=4 records', n='<=3', steps_after_collapse=2)}
BUDGET = {'quick': 1800, 'thorough': 3600}


def history(ctx, G, n):
    from mystic.monitors import Monitor
    m = Monitor()
    H = [ctx.reals('h%d_' % g, n) for g in range(G)]
    for g in range(G):
        m(list(H[g]), 0.0)
    return m, H


def at(G, n, window, target_kind, mask):
    def h(ctx):
        import mystic.collapse as mc
        m, H = history(ctx, G, n)
        tol = ctx.real('tol')
        ctx.assume(ge(tol, 0))
        if target_kind == 'none':
            target = None
        elif target_kind == 'scalar':
            target = ctx.real('t')
        else:
            target = ctx.reals('t', n)
        r = mc.collapse_at(m, target=(list(target) if isinstance(target, list) else target), tolerance=tol, generations=window, mask=(set(mask) if mask is not None else None))
        rows = H[-window:]
        obs = []
        for i in range(n):
            col = [row[i] for row in rows]
            if target is None:
                test = le(maxv(*col) - minv(*col), tol)
            else:
                t = target[i] if isinstance(target, list) else target
                test = And(*[le(absv(v - t), tol) for v in col])
            want = And(test, const(mask is None or i not in mask))
            obs.append(('index-reported-iff-documented-test-and-not-masked[%d]' % i, Iff(const(i in set(int(k) for k in r)), want)))
        newmask = set(int(k) for k in r) | set(mask or ())
        r2 = mc.collapse_at(m, target=(list(target) if isinstance(target, list) else target), tolerance=tol, generations=window, mask=newmask)
        obs.append(('own-output-as-mask-yields-nothing-new', const(len(r2) == 0)))
        return obs
    return h


def as_(G, n, window, offset, mask):
    def h(ctx):
        import mystic.collapse as mc
        m, H = history(ctx, G, n)
        tol = ctx.real('tol')
        ctx.assume(ge(tol, 0))
        r = mc.collapse_as(m, offset=offset, tolerance=tol, generations=window, mask=(set(mask) if mask is not None else None))
        got = set(tuple(int(k) for k in p) for p in r)
        rows = H[-window:]
        obs = []
        for i, j in itertools.combinations(range(n), 2):
            d = [absv(row[i] - row[j]) for row in rows]
            if offset:
                # tracking at a distance: the pairwise difference itself stays within a band
                dd = [row[i] - row[j] for row in rows]
                test = Or(le(maxv(*d) - minv(*d), tol), const(False))
            else:
                test = le(maxv(*d), tol)
            masked = False
            if mask is not None:
                for mk in mask:
                    if isinstance(mk, tuple):
                        masked = masked or (set(mk) == {i, j})
                    else:
                        masked = masked or (mk in (i, j))
            want = And(test, const(not masked))
            obs.append(('pair-reported-iff-documented-test-and-not-masked[%d,%d]' % (i, j), Iff(const((i, j) in got or (j, i) in got), want)))
        newmask = set(got) | set(mask or ())
        r2 = mc.collapse_as(m, offset=offset, tolerance=tol, generations=window, mask=newmask)
        obs.append(('own-output-as-mask-yields-nothing-new', const(len(r2) == 0)))
        return obs
    return h


def weights(G, fmt):
    """collapse_weight on a monitor recording a (2,2) product measure: weight (m,i) reported iff max over the window <= tolerance"""
    def h(ctx):
        import mystic.collapse as mc
        from mystic.monitors import Monitor
        npts = (2, 2)
        m = Monitor(npts=npts)
        H = [ctx.reals('h%d_' % g, 8) for g in range(G)]      # [w0,w1,x0,x1 | w0,w1,x0,x1]
        for g in range(G):
            m(list(H[g]), 0.0)
        tol = ctx.real('tol')
        ctx.assume(ge(tol, 0))
        mask = {'dict': None, 'set': set(), 'where': ((), ())}[fmt]
        r = mc.collapse_weight(m, tolerance=tol, generations=G, mask=mask)
        got = set()
        if fmt == 'dict':
            for k, v in r.items():
                for i in v:
                    got.add((int(k), int(i)))
        elif fmt == 'set':
            got = set((int(a), int(b)) for a, b in r)
        else:
            if len(r):
                got = set((int(a), int(b)) for a, b in zip(*r))
        obs = []
        for mi in range(2):
            for i in range(2):
                col = [row[4 * mi + i] for row in H]
                obs.append(('weight-reported-iff-max-below-tolerance[%d,%d]' % (mi, i), Iff(const((mi, i) in got), le(maxv(*col), tol))))
        # feeding the output back as mask (same format) yields nothing
        r2 = mc.collapse_weight(m, tolerance=tol, generations=G, mask=r if fmt != 'where' else (tuple(r) if len(r) else ((), ())))
        obs.append(('own-output-as-mask-yields-nothing-new', const(not len(r2))))
        return obs
    return h


def mask_entries(mask, kind):
    """normalise a mask in any accepted format to a set of entries"""
    out = set()
    if not mask:
        return out
    if isinstance(mask, dict):
        for k, v in mask.items():
            for i in v:
                out.add((int(k), tuple(int(j) for j in i) if hasattr(i, '__len__') else int(i)))
    elif isinstance(mask, set):
        for e in mask:
            if hasattr(e, '__len__'):
                out.add((int(e[0]), tuple(int(j) for j in e[1]) if hasattr(e[1], '__len__') else int(e[1])))
            else:
                out.add(int(e))
    else:
        if len(mask) == 2 and len(mask[0]):
            for a, b in zip(*mask):
                out.add((int(a), tuple(int(j) for j in b) if hasattr(b, '__len__') else int(b)))
    return out


def mask_growth(kind, fmt, rounds):
    """staged collapses through the real termination / collapsed() / update_mask round trip: the mask grows by what was
    reported, keeps what it had, and a masked entry is never reported again"""
    def h(ctx):
        import mystic.termination as mt
        import mystic.collapse as mc
        import mystic.mask as ma
        from mystic.monitors import Monitor
        tol = 0.25
        if kind == 'CollapseWeight':
            m = Monitor(npts=(2, 2))
            width = 8
            empty = {'dict': None, 'set': set(), 'where': ((), ())}[fmt]
            cond = mt.CollapseWeight(tolerance=tol, generations=1, mask=empty)
            entries = [(mi, i) for mi in range(2) for i in range(2)]
            value = lambda row, e: row[4 * e[0] + e[1]]
            test = lambda row, e: le(value(row, e), tol)
        else:
            m = Monitor()
            width = 3
            cond = mt.CollapseAt(0.5, tolerance=tol, generations=1, mask=None)
            entries = list(range(3))
            test = lambda row, e: le(absv(row[e] - 0.5), tol)
        term = mt.Or(mt.VTR(-1.0), cond)
        s = S.nm_solver(2)
        s._stepmon = m
        obs = []
        masked = set()
        m([0.0] * width if kind != 'CollapseWeight' else [1.0] * width, 0.0)
        for rnd in range(rounds):
            row = ctx.reals('h%d_' % rnd, width)
            m(list(row), 0.0)
            msg = term(s, True)
            rep = mc.collapsed(msg) if msg else None
            got = set()
            if rep:
                for k, v in rep.items():
                    got |= mask_entries(v, kind)
            want = set(e for e in entries if e not in masked and bool(test(row, e)))
            obs.append(('reports-exactly-the-new-collapses@%d' % rnd, const(got == want)))
            obs.append(('never-reports-a-masked-entry@%d' % rnd, const(not (got & masked))))
            if rep:
                term = ma.update_mask(term, rep)
            masked |= got
            st = mt.state(term)
            masks = [v.get('mask') for k, v in st.items() if k.startswith(kind)]
            cur = mask_entries(masks[0], kind) if masks else set()
            obs.append(('mask-is-everything-applied-so-far@%d' % rnd, const(cur == masked)))
        return obs
    return h


# ----------------------------------------------------------------------------- application in a solver
def apply_at(kind, n, target, steps, pattern=None):
    """termination CollapseAt fires on a recorded history -> Collapse() -> real Steps: every evaluated point has the collapsed
    coordinates exactly at the target (target=None: at the value of the current best); the mask grows; nothing is reported again"""
    def h(ctx):
        import mystic.termination as mt
        import mystic.collapse as mc
        w = L.World(ctx, n)
        s = S.make_solver(kind, n)
        s.SetEvaluationLimits(L.BIG, L.BIG)
        tol, window = 0.25, 2
        term = mt.Or(mt.VTR(-1.0), mt.CollapseAt(target, tolerance=tol, generations=window))
        s.SetTermination(term)
        s.SetObjective(w.cost)
        if kind == 'Powell':
            S.install_brent_contract(ctx)
        # an arbitrary state after 3 recorded generations
        H = [ctx.reals('h%d_' % g, n) for g in range(3)]
        if kind in ('DE', 'DE2'):
            NP = s.nPop
            P = [ctx.reals('P%d_' % i, n) for i in range(NP)]
            s.population = [list(p) for p in P]
            s._decorate_objective(w.cost)
            E = [w.raw(p) for p in P]
            for i in range(NP):
                ctx.assume(le(E[0], E[i]))
            s.popEnergy = list(E)
            s.bestSolution = L.arr(P[0])
            s.bestEnergy = E[0]
            ctx.assume(veq(H[-1], P[0]))
            kw = dict(strategy=S.focus_strategy('Best1Bin', 0))
        elif kind == 'NM':
            V = [ctx.reals('V%d_' % i, n) for i in range(n + 1)]
            s.population[0] = L.arr(V[0])
            s._decorate_objective(w.cost)
            E = [w.raw(v) for v in V]
            for i in range(n):
                ctx.assume(le(E[i], E[i + 1]))
            s.population = L.mat(V)
            s.popEnergy = L.arr(E)
            ctx.assume(veq(H[-1], V[0]))
            kw = {}
        for g in range(3):
            s._stepmon(list(H[g]), R(0) + (E[0] if g == 2 else ctx.real('e%d' % g)), s.id)
        rows = H[-window:]
        if pattern is not None:
            # fix WHICH coordinates meet the test (every pattern is an instance); the values stay symbolic
            for i in range(n):
                col = [row[i] for row in rows]
                test = le(maxv(*col) - minv(*col), tol) if target is None else And(*[le(absv(v - target), tol) for v in col])
                ctx.assume(test if i in pattern else Not(test))
        msg = s.Terminated(info=True)
        detected = mc.collapsed(msg) if msg else None
        obs = []
        expect = set()
        for i in range(n):
            col = [row[i] for row in rows]
            test = le(maxv(*col) - minv(*col), tol) if target is None else And(*[le(absv(v - target), tol) for v in col])
            hit = bool(test)
            if hit:
                expect.add(i)
        got = set()
        if detected:
            for k, v in detected.items():
                got |= set(int(i) for i in v)
        obs.append(('termination-reports-exactly-the-collapsed-indices', const(got == expect)))
        if not expect:
            obs.append(('no-collapse-no-stop', const(not msg)))
            return obs
        applied = s.Collapse()
        obs.append(('Collapse-returns-what-was-detected', const(bool(applied) and set(int(i) for v in applied.values() for i in v) == expect)))
        best = L.vec(s.bestSolution)
        tvals = {i: (R(target) if target is not None else best[i]) for i in expect}
        st = mt.state(s._termination)
        masks = [v.get('mask') for k, v in st.items() if k.startswith('CollapseAt')]
        obs.append(('mask-grew-by-the-applied-collapse', const(len(masks) == 1 and masks[0] is not None and set(int(i) for i in masks[0]) >= expect)))
        obs.append(('not-reported-again', const(not s.Collapsed())))
        n0 = len(w.calls)
        for k in range(steps):
            s.Step(**kw)
        for c, x in enumerate(w.calls[n0:]):
            for i in sorted(expect):
                obs.append(('evaluated-point-satisfies-collapse[call %d][%d]' % (c, i), eq(x[i], tvals[i])))
        b2 = L.vec(s.bestSolution)
        if not isinf(L.scalar(s.bestEnergy)) and len(w.calls) > n0:
            for i in sorted(expect):
                obs.append(('solution-satisfies-collapse[%d]' % i, eq(b2[i], tvals[i])))
        return obs
    return h


def apply_twice(kind, n):
    """two successive collapses: the first relation still holds for every point evaluated after the second"""
    def h(ctx):
        import mystic.termination as mt
        import mystic.collapse as mc
        w = L.World(ctx, n)
        s = S.make_solver(kind, n)
        s.SetEvaluationLimits(L.BIG, L.BIG)
        tol, window, target = 0.25, 1, 0.5
        s.SetTermination(mt.Or(mt.VTR(-1.0), mt.CollapseAt(target, tolerance=tol, generations=window)))
        s.SetObjective(w.cost)
        if kind == 'Powell':
            S.install_brent_contract(ctx)
        x0 = ctx.reals('x', n)
        # coordinate 0 starts inside the band, coordinate 1 outside
        ctx.assume(le(absv(x0[0] - target), tol))
        ctx.assume(gt(absv(x0[1] - target), tol))
        s.population[0] = list(x0)
        s.Step()
        s.Step()
        msg = s.Terminated(info=True)
        first = mc.collapsed(msg) if msg else None
        obs = []
        if not first:
            return [('no-first-collapse-on-this-path', const(True))]
        a1 = s.Collapse()
        set1 = set(int(i) for v in a1.values() for i in v)
        n1 = len(w.calls)
        s.Step()
        # force the second coordinate into the band in the record, as a later generation would
        b = L.vec(s.bestSolution)
        msg2 = s.Terminated(info=True)
        second = mc.collapsed(msg2) if msg2 else None
        if second:
            a2 = s.Collapse()
            set2 = set(int(i) for v in a2.values() for i in v)
            obs.append(('second-collapse-is-new', const(not (set1 & set2))))
            n2 = len(w.calls)
            s.Step()
            for c, x in enumerate(w.calls[n2:]):
                for i in sorted(set1 | set2):
                    obs.append(('point-after-second-collapse-keeps-both[call %d][%d]' % (c, i), eq(x[i], target)))
            st = mt.state(s._termination)
            masks = [v.get('mask') for k, v in st.items() if k.startswith('CollapseAt')]
            obs.append(('mask-holds-both', const(len(masks) == 1 and set(int(i) for i in masks[0]) >= (set1 | set2))))
        for c, x in enumerate(w.calls[n1:]):
            for i in sorted(set1):
                obs.append(('point-after-first-collapse[call %d][%d]' % (c, i), eq(x[i], target)))
        obs.append(('ran', const(True)))
        return obs
    return h


def apply_as(kind, n, steps):
    def h(ctx):
        import mystic.termination as mt
        import mystic.collapse as mc
        w = L.World(ctx, n)
        s = S.make_solver(kind, n)
        s.SetEvaluationLimits(L.BIG, L.BIG)
        tol, window = 0.25, 2
        s.SetTermination(mt.Or(mt.VTR(-1.0), mt.CollapseAs(False, tolerance=tol, generations=window)))
        s.SetObjective(w.cost)
        H = [ctx.reals('h%d_' % g, n) for g in range(3)]
        V = [ctx.reals('V%d_' % i, n) for i in range(n + 1)]
        s.population[0] = L.arr(V[0])
        s._decorate_objective(w.cost)
        E = [w.raw(v) for v in V]
        for i in range(n):
            ctx.assume(le(E[i], E[i + 1]))
        s.population = L.mat(V)
        s.popEnergy = L.arr(E)
        ctx.assume(veq(H[-1], V[0]))
        for g in range(3):
            s._stepmon(list(H[g]), R(0) + (E[0] if g == 2 else ctx.real('e%d' % g)), s.id)
        msg = s.Terminated(info=True)
        detected = mc.collapsed(msg) if msg else None
        obs = []
        rows = H[-window:]
        expect = set()
        for i, j in itertools.combinations(range(n), 2):
            if bool(le(maxv(*[absv(row[i] - row[j]) for row in rows]), tol)):
                expect.add((i, j))
        got = set()
        if detected:
            for k, v in detected.items():
                got |= set(tuple(sorted(int(i) for i in p)) for p in v)
        obs.append(('termination-reports-exactly-the-collapsed-pairs', const(got == expect)))
        if not expect:
            return obs
        applied = s.Collapse()
        pairs = set(tuple(int(i) for i in p) for v in applied.values() for p in v)
        obs.append(('not-reported-again', const(not s.Collapsed())))
        n0 = len(w.calls)
        for k in range(steps):
            s.Step()
        for c, x in enumerate(w.calls[n0:]):
            for (i, j) in sorted(pairs):
                obs.append(('evaluated-point-ties-the-pair[call %d][%d,%d]' % (c, i, j), eq(x[i], x[j])))
        return obs
    return h


def instances(tier, seed):
    q = tier == 'quick'
    out = []
    for G, n, win in ((2, 2, 2), (3, 2, 2), (3, 3, 2), (3, 3, 3), (3, 2, 4), (2, 2, 3)) if q else ((2, 2, 2), (3, 2, 2), (3, 3, 2), (3, 3, 3), (4, 2, 3), (4, 3, 2), (3, 3, 1), (3, 2, 4), (3, 2, 5), (2, 2, 3), (3, 2, 6), (4, 2, 7)):      # (windows longer than the history: the whole history counts)
        for tk in ('none', 'scalar', 'list'):
            for mask in (None, (0,), (1, 2)):
                if mask and max(mask) >= n:
                    continue
                out.append(Instance('collapse_at/G=%d/n=%d/window=%d/target=%s/mask=%s' % (G, n, win, tk, mask), at(G, n, win, tk, mask)))
        for off in (False, True):
            for mask in (None, (0,), ((0, 1),), ((1, 0), 2)):
                if mask and any((max(mk) if isinstance(mk, tuple) else mk) >= n for mk in mask):
                    continue
                if G == 3 and n == 3 and win == 3 and mask not in (None, ((0, 1),)):
                    continue
                out.append(Instance('collapse_as/G=%d/n=%d/window=%d/offset=%s/mask=%s' % (G, n, win, off, mask), as_(G, n, win, off, mask)))
    for fmt in ('dict', 'set', 'where'):
        out.append(Instance('collapse_weight/G=2/format=%s' % fmt, weights(2, fmt)))
    for fmt in ('dict', 'set', 'where'):
        out.append(Instance('mask-growth/CollapseWeight/format=%s/rounds=%d' % (fmt, 2 if q else 3), mask_growth('CollapseWeight', fmt, 2 if q else 3)))
    out.append(Instance('mask-growth/CollapseAt/rounds=%d' % (2 if q else 3), mask_growth('CollapseAt', 'set', 2 if q else 3)))
    for kind in ('NM', 'DE', 'DE2'):
        for target in (0.5, None):
            for pattern in (((0,), (0, 1), ()) if q else ((0,), (1,), (0, 1), ())):
                if kind == 'DE2' and (q or target is None):
                    continue
                out.append(Instance('apply/CollapseAt/%s/n=2/target=%s/collapsed=%s' % (kind, target, pattern),
                                    apply_at(kind, 2, target, 1 if (q or kind != 'NM') else 2, pattern), qtimeout=6000))
    if not q:
        out.append(Instance('apply/CollapseAt/NM/n=3/target=0.5/collapsed=(0, 2)', apply_at('NM', 3, 0.5, 1, (0, 2)), qtimeout=6000))
    out.append(Instance('apply/CollapseAs/NM/n=2', apply_as('NM', 2, 1), qtimeout=6000))
    out.append(Instance('apply-twice/CollapseAt/NM/n=2', apply_twice('NM', 2), qtimeout=6000))
    return out
