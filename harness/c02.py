"""C02 - strict ranges: the objective is never evaluated outside the box.

Real code executed: tools.wrap_bounds, AbstractSolver.SetStrictRanges/_boundsconstraints/
_clipGuessWithinRangeBoundary/SetInitialPoints/SetRandomInitialPoints/_decorate_objective/Step,
DE/DE2/NM/Powell _decorate_objective/_Step, NM _setSimplexWithinRangeBoundary, constraints.and_,
constraints.boundsconstrain/impose_bounds/bounded, symbolic.symbolic_bounds/simplify/generate_solvers/
generate_constraint (tight=True).
The raw cost stub logs every argument; the obligation `lo <= x <= hi` is asserted for EVERY logged call.
"""
from symex.engine import Instance
from symex.values import Ctx
from symex import stubs
from symex.ob import (eq, ne, le, lt, ge, gt, And, Or, Not, Implies, Iff, const, ite, absv, maxv, minv, R,
                      sumv, isinf, veq)
from harness import solverlib as L
from harness import steps as S
from harness import c01

PROPERTY = 'C02'
LEVEL = 'model_checking'
ASSUMPTIONS = [
    'floats modelled as exact reals; NaN coordinates outside the claim ("outside [min,max]" is read as an ordered comparison)',
    'min[i] <= max[i] (SetStrictRanges rejects anything else)',
    'constraints functions are uninterpreted and idempotent; the family box+wildcons drops the box-preservation assumption (constraints may push points out)',
    'DE: one focus candidate per instance has solver-chosen random draws (all positions are instances); Powell: Brent replaced by its contract',
    'tight=True / clip=True / clip=False: the box is drawn from an enumerated rational pool (the symbolic pipeline needs text); the point stays symbolic',
]
BOUNDS = {'quick': dict(dim='1..2', NP=4, steps=1, box_pool=3), 'thorough': dict(dim='1..3', NP='4..6', steps=1, box_pool=6)}
BUDGET = {'quick': 1800, 'thorough': 5400}
INF = float('inf')


def calls_inside(r, start=0):
    w = r.w
    return [('evaluated-inside-box[call %d]' % k, w.inside(c)) for k, c in enumerate(w.calls[start:])]


def oblig(r):
    w, k = r.w, r.kind
    obs = calls_inside(r)
    if k in ('de-step', 'de-gen0', 'nm-step', 'nm-start', 'powell'):
        post = r.post
        if not isinf(post['bestE']):
            obs.append(('finite-best-inside-box', w.inside(post['best'])))
        if k in ('de-step', 'de-gen0'):
            for i in range(r.NP):
                if not isinf(post['en'][i]):
                    obs.append(('finite-member-inside-box[%d]' % i, w.inside(post['pop'][i])))
    elif k == 'decoration':
        if isinf(r.out):
            obs.append(('inf-means-not-evaluated', const(len(w.calls) == r.n0)))
            obs.append(('inf-only-outside', Not(w.inside(r.target))))
        else:
            obs.append(('finite-only-inside', w.inside(r.target)))
    elif k == 'wrapper':
        fopt = L.scalar(r.out[1])
        if not isinf(fopt):
            obs.append(('finite-xopt-inside-box', w.inside(L.vec(r.out[0]))))
    if not obs:
        obs.append(('no-evaluation', const(True)))
    return obs


# ----------------------------------------------------------------------------- wrap_bounds alone
def wrap_bounds_kernel(mode, dim):
    def h(ctx):
        from mystic.tools import wrap_bounds
        x = ctx.reals('x', dim)
        lo, hi = ctx.reals('lo', dim), ctx.reals('hi', dim)
        calls = []

        def cost(p):
            calls.append(L.vec(p))
            return ctx.real('fx')
        if mode == 'both':
            f = wrap_bounds(cost, L.arr(lo), L.arr(hi))
            inside = And(*[And(le(lo[i], x[i]), le(x[i], hi[i])) for i in range(dim)])
        elif mode == 'lower':
            f = wrap_bounds(cost, L.arr(lo), None)
            inside = And(*[le(lo[i], x[i]) for i in range(dim)])
        elif mode == 'upper':
            f = wrap_bounds(cost, None, L.arr(hi))
            inside = And(*[le(x[i], hi[i]) for i in range(dim)])
        elif mode == 'none':
            f = wrap_bounds(cost, None, None)
            inside = const(True)
        elif mode == 'inf-sides':
            f = wrap_bounds(cost, [lo[0]] + [-INF] * (dim - 1), [INF] * dim)
            inside = le(lo[0], x[0])
        elif mode == 'degenerate':
            f = wrap_bounds(cost, L.arr(lo), L.arr(lo))
            inside = And(*[eq(lo[i], x[i]) for i in range(dim)])
        out = f(L.arr(x))
        if calls:
            return [('called-only-inside', inside), ('called-once', const(len(calls) == 1)), ('called-at-x', veq(calls[0], x)),
                    ('value-passed-through', const(not isinf(out)))]
        return [('skipped-only-outside', Not(inside)), ('skipped-gives-inf', const(isinf(out) and out > 0))]
    return h


def clip_guess(at, dim):
    def h(ctx):
        s = S.nm_solver(dim)
        lo, hi = ctx.reals('lo', dim), ctx.reals('hi', dim)
        for a, b in zip(lo, hi):
            ctx.assume(le(a, b))
        s.SetStrictRanges(L.arr(lo), L.arr(hi))
        x = ctx.reals('x', dim)
        y = L.vec(s._clipGuessWithinRangeBoundary(L.arr(x), at))
        obs = [('clipped-guess-inside[%d]' % i, And(le(lo[i], y[i]), le(y[i], hi[i]))) for i in range(dim)]
        for i in range(dim):
            obs.append(('inside-coordinate-unchanged[%d]' % i, Implies(And(le(lo[i], x[i]), le(x[i], hi[i])), eq(y[i], x[i]))))
            if at:
                obs.append(('clipped-at-nearest-bound[%d]' % i, And(Implies(lt(x[i], lo[i]), eq(y[i], lo[i])), Implies(gt(x[i], hi[i]), eq(y[i], hi[i])))))
        return obs
    return h


def initial_points(kind, dim):
    def h(ctx):
        s = S.de_class(False)(dim, 4) if kind.startswith('DE') else S.nm_solver(dim)
        lo, hi = ctx.reals('lo', dim), ctx.reals('hi', dim)
        for a, b in zip(lo, hi):
            ctx.assume(le(a, b))
        obs = []
        if kind.endswith('random'):
            s.SetRandomInitialPoints(list(lo), list(hi))
            for i, p in enumerate(s.population):
                p = L.vec(p)
                obs.append(('random-initial-point-inside[%d]' % i, And(*[And(le(lo[j], p[j]), le(p[j], hi[j])) for j in range(dim)])))
        else:
            x0 = ctx.reals('x', dim)
            rad = ctx.real('radius')
            ctx.assume(And(ge(rad, 0), le(rad, 1)))
            s.SetInitialPoints(list(x0), radius=rad)
            obs.append(('guess-is-member-0', veq(L.vec(s.population[0]), x0)))
            for i, p in enumerate(s.population[1:]):
                p = L.vec(p)
                for j in range(dim):
                    a, b = x0[j] * (R(1) - rad), x0[j] * (R(1) + rad)
                    a, b = ite(eq(a, 0), R(0) - rad, a), ite(eq(b, 0), rad, b)    # "zero ends are replaced by -/+ radius"
                    obs.append(('initial-point-within-radius[%d][%d]' % (i + 1, j), And(le(minv(a, b), p[j]), le(p[j], maxv(a, b)))))
        return obs
    return h


# ----------------------------------------------------------------------------- ranges installed mid-run
def midrun(kind, dim, cons, free=0):
    """arbitrary pre-state (energies arbitrary; DE: member `free` and the best anywhere, the others already inside the
    new box; NM/Powell: everything anywhere), SetStrictRanges, Step: all calls inside"""
    def h(ctx):
        w = L.World(ctx, dim, box=False, cons=cons)
        lo, hi = ctx.reals('lo', dim), ctx.reals('hi', dim)
        for a, b in zip(lo, hi):
            ctx.assume(le(a, b))
        if kind in ('DE', 'DE2'):
            NP = 4
            s = S.de_class(kind == 'DE2')(dim, NP)
            L.configure(s, w)
            P = [ctx.reals('P%d_' % i, dim) for i in range(NP)]
            E = ctx.reals('E', NP)
            for i in range(NP):
                if i != free:
                    ctx.assume(And(*[And(le(lo[j], P[i][j]), le(P[i][j], hi[j])) for j in range(dim)]))
            s.population = [list(p) for p in P]
            s._decorate_objective(w.cost)
            ib = ctx.choose(NP, 'bestidx')
            for i in range(NP):
                ctx.assume(le(E[ib], E[i]))
            s.popEnergy = list(E)
            s.bestSolution = L.arr(P[ib])
            s.bestEnergy = E[ib]
            L.log_generations(s, 1, P[ib], E[ib])
            kw = dict(strategy=S.focus_strategy('Best1Bin', free))
        elif kind == 'NM':
            s = S.nm_solver(dim)
            L.configure(s, w)
            V = [ctx.reals('V%d_' % i, dim) for i in range(dim + 1)]
            E = ctx.reals('E', dim + 1)
            for i in range(dim):
                ctx.assume(le(E[i], E[i + 1]))
            s._decorate_objective(w.cost)
            s.population = L.mat(V)
            s.popEnergy = L.arr(E)
            L.log_generations(s, 1, V[0], E[0])
            kw = {}
        else:
            S.install_brent_contract(ctx)
            s = S.powell_solver(dim)
            L.configure(s, w)
            s.population[0] = list(ctx.reals('x', dim))
            s.Step()
            s.Step()
            kw = {}
        n0 = len(w.calls)
        w.lo, w.hi = lo, hi            # from now on the box is in force (boxkeep applies to later constraint calls)
        s.SetStrictRanges(L.arr(lo), L.arr(hi))
        s.Step(**kw)
        obs = [('evaluated-inside-box[call %d]' % k, w.inside(c)) for k, c in enumerate(w.calls[n0:])]
        obs.append(('step-evaluated-something-or-all-outside', const(True)))
        if kind == 'NM':
            s.Step()
            obs += [('evaluated-inside-box-2nd-step[call %d]' % k, w.inside(c)) for k, c in enumerate(w.calls[n0:])]
        return obs
    return h


def after_first_step(kind, dim, cons, nsteps0):
    """public API only: `nsteps0` Steps from an arbitrary start (1 = right after the initial evaluation), THEN SetStrictRanges,
    then two more Steps: every evaluation after the installation lies inside the box"""
    def h(ctx):
        w = L.World(ctx, dim, box=False, cons=cons)
        lo, hi = ctx.reals('lo', dim), ctx.reals('hi', dim)
        for a, b in zip(lo, hi):
            ctx.assume(le(a, b))
        s = S.make_solver(kind, dim)
        L.configure(s, w)
        if kind == 'Powell':
            S.install_brent_contract(ctx)
        x0 = ctx.reals('x', dim)
        if kind in ('DE', 'DE2'):
            for i in range(s.nPop):
                s.population[i] = list(x0)          # (identical members keep the DE path count small; where they lie is symbolic)
            stubs.ORACLE.override = S.FixedDraws()
        else:
            s.population[0] = list(x0)
        try:
            for k in range(nsteps0):
                s.Step()
            n0 = len(w.calls)
            w.lo, w.hi = lo, hi
            s.SetStrictRanges(L.arr(lo), L.arr(hi))
            s.Step()
            if kind not in ('DE', 'DE2'):
                s.Step()
        finally:
            stubs.ORACLE.override = None
        obs = [('evaluated-inside-box-after-installation[call %d]' % k, w.inside(c)) for k, c in enumerate(w.calls[n0:])]
        obs.append(('ran', const(True)))
        return obs
    return h


# ----------------------------------------------------------------------------- tight / clip modes (concrete boxes, symbolic points)
BOX_POOL = S.BOX_POOL


def bounds_constraint(mode, lo, hi):
    """the constraint SetStrictRanges builds for tight/clip modes: clips into the box / identity inside"""
    dim = len(lo)

    def h(ctx):
        s = S.nm_solver(dim)
        kw = dict(tight=True) if mode == 'tight' else (dict(tight=False) if mode == 'tight=False' else dict(clip=(mode == 'clip=True')))
        stubs.ORACLE.override = S.FixedDraws()      # simplify() draws test points
        try:
            s.SetStrictRanges(list(lo), list(hi), **kw)
        except ZeroDivisionError:
            # the symbolic pipeline rejects a one-dimensional degenerate box: the ranges are not installed, nothing is evaluated
            return [('configuration-rejected-before-any-evaluation', const(mode == 'tight' and list(lo) == list(hi)))]
        finally:
            stubs.ORACLE.override = None
        x = ctx.reals('x', dim)
        y = L.vec(s._strictbounds(L.arr(x) if mode != 'tight' else list(x)))
        obs = []
        for i in range(dim):
            obs.append(('result-inside-box[%d]' % i, And(le(lo[i], y[i]), le(y[i], hi[i]))))
            obs.append(('identity-inside[%d]' % i, Implies(And(le(lo[i], x[i]), le(x[i], hi[i])), eq(y[i], x[i]))))
            if mode != 'clip=False':
                obs.append(('clips-to-nearest-bound[%d]' % i, And(Implies(lt(x[i], lo[i]), eq(y[i], lo[i])), Implies(gt(x[i], hi[i]), eq(y[i], hi[i])))))
        return obs
    return h


def mode_oblig(r):
    w = r.w
    obs = [('evaluated-inside-box@%d[call %d]' % (r.g, k), w.inside(c)) for k, c in enumerate(w.calls)]
    if not isinf(r.post['bestE']):
        obs.append(('finite-best-inside-box@%d' % r.g, w.inside(r.post['best'])))
    return obs


def mode_step(kind, mode, lo, hi, cons):
    return S.mode_step(kind, mode, lo, hi, cons, mode_oblig)


def instances(tier, seed):
    q = tier == 'quick'
    out = []
    for mode in ('both', 'lower', 'upper', 'none', 'inf-sides', 'degenerate'):
        for dim in (1, 2) if q else (1, 2, 3):
            out.append(Instance('wrap_bounds/%s/dim=%d' % (mode, dim), wrap_bounds_kernel(mode, dim)))
    for at in (True, False):
        for dim in (1, 2) if q else (1, 2, 3):
            out.append(Instance('clip-guess/at=%s/dim=%d' % (at, dim), clip_guess(at, dim)))
    for kind in ('DE-random', 'DE-guess', 'NM-guess'):
        out.append(Instance('initial-points/%s/dim=%d' % (kind, 1 if q else 2), initial_points(kind, 1 if q else 2)))
    CF = ('box', 'box+cons', 'box+cons+pen', 'box+wildcons') if q else ('box', 'box+cons', 'box+cons+pen', 'box+cons-inplace+pen', 'box+wildcons')
    for kind in ('DE', 'DE2', 'NM', 'Powell'):
        for cfg in CF:
            out.append(Instance('decoration/%s/%s/dim=2' % (kind, cfg), S.decoration(kind, cfg, 2, oblig)))
    out += c01.step_instances(tier, oblig, configs=CF)
    for kind in ('DE', 'DE2', 'NM', 'Powell'):
        for cons in (None, 'pure'):
            for free in (range(4) if kind.startswith('DE') else (0,)):
                if q and kind.startswith('DE') and (kind, cons, free) not in (('DE', None, 0), ('DE2', 'pure', 1)):
                    continue
                out.append(Instance('midrun-ranges/%s/%s/dim=1/free=%d' % (kind, cons or 'nocons', free), midrun(kind, 1, cons, free)))
    if not q:
        out.append(Instance('midrun-ranges/NM/nocons/dim=2', midrun('NM', 2, None)))
    for kind in ('NM', 'Powell', 'DE', 'DE2'):
        for n0 in ((1,) if q else (1, 2)):
            for cons in ((None,) if (q or kind.startswith('DE')) else (None, 'pure')):
                out.append(Instance('ranges-after-%d-steps/%s/%s/dim=1' % (n0, kind, cons or 'nocons'), after_first_step(kind, 1, cons, n0), qtimeout=4000))
    for kind in ('fmin', 'fmin_powell', 'diffev', 'diffev2'):
        for cfg in ('box', 'box+cons+pen'):
            for mi in ((1,) if q else (0, 1, 2)):
                out.append(Instance('wrapper/%s/%s/maxiter=%d' % (kind, cfg, mi), S.wrapper(kind, cfg, 1, mi, oblig)))
    pool = BOX_POOL[:1] + BOX_POOL[3:4] + BOX_POOL[6:7] if q else BOX_POOL
    for bi, (lo, hi) in enumerate(BOX_POOL[:6] if not q else BOX_POOL[:4]):
        for mode in ('tight', 'clip=True', 'clip=False'):
            if bi == 4 and mode == 'clip=False':
                continue        # (a 1e20-wide side: exact-real redraws do not replay on floats)
            # (the non-decimal boxes 6, 7 reach this kernel as 15-digit text, i.e. shifted by ~1e-16 relative: they are exercised
            # through the mode-step instances, whose oracle is the float box and which never evaluate outside it)
            out.append(Instance('bounds-constraint/%s/box%d' % (mode, bi), bounds_constraint(mode, lo, hi)))
    for bi, (lo, hi) in enumerate(pool):
        for mode in ('tight', 'clip=True', 'clip=False', 'tight=False'):
            for kind in (('NM', 'DE') if q else ('NM', 'Powell', 'DE', 'DE2')):
                if q and kind in ('DE', 'DE2') and (len(lo) > 1 or mode == 'clip=False'):
                    continue
                if q and BOX_POOL.index((lo, hi)) == 6 and mode not in ('tight', 'tight=False'):
                    continue
                for cons in ((None,) if (q or len(lo) > 1) else (None, 'pure')):      # (2-D boxes with extra constraints: >150k paths each)
                    if kind == 'Powell' and mode == 'clip=False' and BOX_POOL.index((lo, hi)) in (4, 6):
                        continue        # (redraws over a 1e20-wide / non-decimal side: exact-real counterexamples of rounding size do not replay on floats)
                    if kind in ('DE', 'DE2') and mode == 'clip=False' and (len(lo) > 1 or cons or BOX_POOL.index((lo, hi)) not in (0, 2, 6)):
                        continue        # (symbolic in-box redraws of every member: 10^5..10^6 paths each; three 1-D boxes are kept)
                    out.append(Instance('mode-step/%s/%s/box%d/%s' % (kind, mode, BOX_POOL.index((lo, hi)), cons or 'nocons'),
                                        mode_step(kind, mode, lo, hi, cons)))
    return out
