"""C16 - constraint transforms land in their target set and leave conforming input alone.

Real code executed: constraints.discrete/integers/rounded/precision/unique/impose_unique/monotonic/sorting/
impose_at/impose_as/with_mean/with_variance/with_std/with_spread/normalized/bounded/impose_bounds,
tools.insert_missing/masked/partial/synchronized/suppress/suppressed/clipped/connected, and the
math.measures functions they delegate to.
Each decorator is applied to the identity and CALLED on a solver-quantified vector (list and ndarray inputs).
Obligations: selected entries land in the target set; unselected entries unchanged; entries already in the target
set unchanged; g(g(x)) == g(x).
"""
import itertools
from symex.engine import Instance
from symex.values import Ctx
from symex import stubs
from symex.ob import (eq, ne, le, lt, ge, gt, And, Or, Not, Implies, Iff, const, ite, absv, maxv, minv, R,
                      sumv, isinf, veq, sqrt)
from harness import solverlib as L

PROPERTY = 'C16'
LEVEL = 'model_checking'
ASSUMPTIONS = [
    'floats modelled as exact reals (round-half-to-even for rounding, as numpy); NaN outside the claim',
    'sample sets / interval sets / index selections are enumerated concrete values; the input vector, numeric targets and offsets are solver variables',
    'with_mean/with_variance/with_spread/normalized skip their correction when almostEqual(current, target) already holds (documented tolerance 1e-15-ish via '
    'math.approx.almostEqual): the obligation is "target reached up to that tolerance", idempotence is asserted where the transform is exact',
    'unique: values range over a small enumerated integer set (set membership in the implementation is hash-based and is not symbolically executable); the random '
    'replacement choices (shuffle) are solver variables',
    'non-degenerate variance / spread (> 0) as the property states',
]
BOUNDS = {'quick': dict(n='<=3', index_selections=5), 'thorough': dict(n='<=4', index_selections=7)}
BUDGET = {'quick': 1800, 'thorough': 3600}

ident = lambda x: x


def inputs(ctx, n, kind):
    x = ctx.reals('x', n)
    return x, (L.arr(x) if kind == 'array' else list(x))


def norm_index(index, n):
    """positions addressed by an index selection the way numpy fancy indexing reads it (negative = from the end; out of range = ignored)"""
    if index is None:
        return set(range(n))
    out = set()
    for i in index:
        if -n <= i < n:
            out.add(i % n)
    return out


INDEXES = [None, (0,), (0, 2), (-1,), (1, -1)]


# ----------------------------------------------------------------------------- elementwise projections
def elementwise(name, make, target, conform, n, index, kind, oob_ok=True):
    def h(ctx):
        import mystic.constraints as C
        g = make(C, index)(ident)
        x, arg = inputs(ctx, n, kind)
        y = L.vec(g(arg))
        sel = norm_index(index, n)
        obs = [('length-preserved', const(len(y) == n))]
        for i in range(n):
            if i in sel:
                obs.append(('selected-entry-in-target-set[%d]' % i, target(x[i], y[i])))
                obs.append(('conforming-entry-unchanged[%d]' % i, Implies(conform(x[i]), eq(y[i], x[i]))))
            else:
                obs.append(('unselected-entry-unchanged[%d]' % i, eq(y[i], x[i])))
        y2 = L.vec(g(L.arr(y) if kind == 'array' else list(y)))
        obs.append(('idempotent', veq(y2, y)))
        obs.append(('input-not-modified', veq(L.vec(arg), x)))
        return obs
    return h


SAMPLES = [1.0, 2.0, 5.0]


def discrete_target(xi, yi):
    S = [R(s) for s in SAMPLES]
    member = Or(*[eq(yi, s) for s in S])
    nearest = And(*[le(absv(yi - xi), absv(s - xi)) for s in S])
    return And(member, nearest)


def is_int(v):
    """v is an integer (goal position: exists k. v == k, expressed with z3's ToInt)"""
    if Ctx.mode == 'sym':
        import z3
        from symex.values import zr, SBool
        z = zr(v)
        return SBool(z3.ToReal(z3.ToInt(z)) == z)
    return const(float(v) == int(float(v)))


def is_int_hyp(v):
    """v is an integer, for use as a HYPOTHESIS: v == m for a fresh integer m (validity over all m is the universal reading)"""
    if Ctx.mode == 'sym':
        import z3
        from symex.values import zr, SBool
        m = Ctx.cur.fresh('m', 'I', register=False)
        return SBool(zr(v) == z3.ToReal(m))
    return const(float(v) == int(float(v)))


def int_target(xi, yi):
    return And(is_int(yi), le(absv(yi - xi), R(0.5)))


def scaled(v, d):
    """v * 10**d with an exact power of ten (10.0**-1 is not 1/10 in binary)"""
    return v * R(10 ** d) if d >= 0 else v / R(10 ** (-d))


def digits_target(d):
    def t(xi, yi):
        return And(is_int(scaled(yi, d)), le(scaled(absv(yi - xi), d), R(0.5)))
    return t


def reconfigured(which, n, kind):
    """the decorated function's reconfiguration hooks (.samples / .index / .digits / .type / .clip): after a hook call the new
    setting is what gets imposed"""
    def h(ctx):
        import mystic.constraints as C
        x, arg = inputs(ctx, n, kind)
        obs = []
        if which == 'discrete.samples':
            g = C.discrete([1.0, 2.0, 5.0])(ident)
            g.samples([7.0, 1.0, 3.5])                       # given out of order
            S2 = [1.0, 3.5, 7.0]
            y = L.vec(g(arg))
            for i in range(n):
                obs.append(('member-of-the-new-sample-set[%d]' % i, Or(*[eq(y[i], v) for v in S2])))
                obs.append(('nearest-member-of-the-new-sample-set[%d]' % i, And(*[le(absv(y[i] - x[i]), absv(R(v) - x[i])) for v in S2])))
            obs.append(('idempotent', veq(L.vec(g(L.arr(y) if kind == 'array' else list(y))), y)))
        elif which == 'discrete.index':
            g = C.discrete([1.0, 2.0, 5.0])(ident)
            g.index((1,))
            y = L.vec(g(arg))
            for i in range(n):
                obs.append((('selected-entry-in-set[%d]' % i), Or(*[eq(y[i], v) for v in SAMPLES])) if i == 1 else ('unselected-entry-unchanged[%d]' % i, eq(y[i], x[i])))
        elif which == 'rounded.digits':
            g = C.rounded(0)(ident)
            g.digits(1)
            y = L.vec(g(arg))
            for i in range(n):
                obs.append(('rounded-to-the-new-digits[%d]' % i, digits_target(1)(x[i], y[i])))
        elif which == 'integers.index':
            g = C.integers(float)(ident)
            g.index((0, -1))
            y = L.vec(g(arg))
            for i in range(n):
                obs.append((('selected-entry-integer[%d]' % i), int_target(x[i], y[i])) if i in (0, n - 1) else ('unselected-entry-unchanged[%d]' % i, eq(y[i], x[i])))
        elif which == 'impose_bounds.clip':
            g = C.impose_bounds((0.0, 5.0))(ident)
            y1 = L.vec(g(arg))                               # clip
            g.clip(False)
            y2 = L.vec(g(L.arr(y1) if kind == 'array' else list(y1)))
            obs.append(('conforming-result-unchanged-after-switching-mode', veq(y2, y1)))
            for i in range(n):
                obs.append(('clipped[%d]' % i, eq(y1[i], minv(maxv(x[i], R(0)), R(5)))))
        return obs
    return h


# ----------------------------------------------------------------------------- order
def ordering(which, ascending, n, index, kind):
    def h(ctx):
        import mystic.constraints as C
        g = getattr(C, which)(ascending=ascending, index=index)(ident)
        x, arg = inputs(ctx, n, kind)
        y = L.vec(g(arg))
        sel = sorted(norm_index(index, n))
        if index is not None and len(index) == 1:
            sel = []
        obs = []
        le_ = le if ascending else ge
        for a, b in zip(sel, sel[1:]):
            obs.append(('selected-entries-in-order[%d,%d]' % (a, b), le_(y[a], y[b])))
        for i in range(n):
            if i not in sel:
                obs.append(('unselected-entry-unchanged[%d]' % i, eq(y[i], x[i])))
        if which == 'sorting':
            # a permutation of the selected entries
            for a in sel:
                obs.append(('sorted-is-permutation[%d]' % a, And(Or(*[eq(y[a], x[b]) for b in sel]), Or(*[eq(x[a], y[b]) for b in sel]))))
        else:
            # running maximum / minimum
            for k, a in enumerate(sel):
                prev = [x[b] for b in sel[:k + 1]]
                obs.append(('monotonic-is-running-extreme[%d]' % a, eq(y[a], maxv(*prev) if ascending else minv(*prev))))
        already = And(*[le_(x[a], x[b]) for a, b in zip(sel, sel[1:])]) if len(sel) > 1 else const(True)
        obs.append(('ordered-input-unchanged', Implies(already, veq(y, x))))
        y2 = L.vec(g(L.arr(y) if kind == 'array' else list(y)))
        obs.append(('idempotent', veq(y2, y)))
        return obs
    return h


# ----------------------------------------------------------------------------- pinning / tracking
def pin(index, n, kind):
    def h(ctx):
        import mystic.constraints as C
        t = ctx.real('t')
        g = C.impose_at(index, t)(ident)
        x, arg = inputs(ctx, n, kind)
        y = L.vec(g(arg))
        sel = set(i for i in index if 0 <= i < n)
        obs = []
        for i in range(n):
            obs.append(('pinned[%d]' % i, eq(y[i], t)) if i in sel else ('unselected-entry-unchanged[%d]' % i, eq(y[i], x[i])))
        obs.append(('idempotent', veq(L.vec(g(L.arr(y) if kind == 'array' else list(y))), y)))
        obs.append(('input-not-modified', veq(L.vec(arg), x)))
        return obs
    return h


def track(mask, n, kind, with_offset):
    def h(ctx):
        import mystic.constraints as C
        off = ctx.real('off') if with_offset else None
        g = C.impose_as(mask, off)(ident)
        x, arg = inputs(ctx, n, kind)
        y = L.vec(g(arg))
        o = off if with_offset else R(0)
        obs = []
        tracked = set()
        for (i, j) in mask:
            if i < n and j < n:
                obs.append(('tracks-partner+offset[%d<-%d]' % (j, i), eq(y[j], y[i] + o)))
                tracked.add(j)
        for i in range(n):
            if i not in tracked:
                obs.append(('untracked-entry-unchanged[%d]' % i, eq(y[i], x[i])))
        obs.append(('idempotent', veq(L.vec(g(L.arr(y) if kind == 'array' else list(y))), y)))
        obs.append(('input-not-modified', veq(L.vec(arg), x)))
        return obs
    return h


# ----------------------------------------------------------------------------- statistics
def stat(which, n):
    def h(ctx):
        import mystic.constraints as C
        t = ctx.real('t')
        x = ctx.reals('x', n)
        mean = lambda v: sumv(v) / R(n)
        var = lambda v: sumv([(a - mean(v)) * (a - mean(v)) for a in v]) / R(n)
        spread = lambda v: maxv(*v) - minv(*v)
        if which in ('with_variance', 'with_std'):
            ctx.assume(gt(var(x), 0))
            ctx.assume(gt(t, 0))
        if which == 'with_spread':
            ctx.assume(gt(spread(x), 0))
            ctx.assume(gt(t, 0))
        if which == 'normalized':
            ctx.assume(ne(sumv(x), 0))
        arg = t if which != 'normalized' else t
        g = getattr(C, which)(arg)(ident)
        y = L.vec(g(list(x)))
        tol = lambda ref: R(1e-18) + R(1e-7) * absv(ref)       # math.approx.almostEqual(current, target): the transforms' own notion of 'already there'
        obs = []
        if which == 'with_mean':
            obs.append(('mean-is-target', le(absv(mean(y) - t), tol(t))))
            obs.append(('variance-kept', le(absv(var(y) - var(x)), tol(var(x)))))
            obs.append(('spread-kept', le(absv(spread(y) - spread(x)), tol(spread(x)))))
        elif which == 'with_variance':
            obs.append(('variance-is-target', le(absv(var(y) - t), tol(t))))
            obs.append(('mean-kept', le(absv(mean(y) - mean(x)), tol(mean(x)))))
        elif which == 'with_std':
            obs.append(('variance-is-target-squared', le(absv(var(y) - t * t), tol(t * t))))
            obs.append(('mean-kept', le(absv(mean(y) - mean(x)), tol(mean(x)))))
        elif which == 'with_spread':
            obs.append(('spread-is-target', le(absv(spread(y) - t), tol(t))))
            obs.append(('mean-kept', le(absv(mean(y) - mean(x)), tol(mean(x)))))
        else:
            obs.append(('sum-is-target', le(absv(sumv(y) - t), tol(t))))
        obs.append(('length-preserved', const(len(y) == n)))
        return obs
    return h


# ----------------------------------------------------------------------------- tools: input-rewriting decorators
def rewriting(which, n, kind):
    def h(ctx):
        import mystic.tools as T
        x, arg = inputs(ctx, n, kind)
        obs = []
        if which == 'masked' and kind == 'array':
            import numpy
            arg = arg.view(numpy.ndarray)       # insert_missing rebuilds "type(x)" through dill.source.getimport: hand it a plain ndarray
        if which == 'masked':
            a, b = ctx.real('a'), ctx.real('b')
            g = T.masked({0: a, n + 1: b})(ident)
            y = L.vec(g(arg))
            want = [a] + list(x) + [b]
            obs.append(('masked-inserts-at-positions', veq(y, want) if len(y) == n + 2 else const(False)))
            g2 = T.masked({1: a})(ident)
            y2 = L.vec(g2(arg))
            obs.append(('masked-single-insert', veq(y2, [x[0], a] + list(x[1:])) if len(y2) == n + 1 else const(False)))
            g3 = T.masked({n + 1: b, 0: a})(ident)          # keys given in descending order
            y3 = L.vec(g3(arg))
            obs.append(('masked-unordered-keys', veq(y3, want) if len(y3) == n + 2 else const(False)))
            g4 = T.masked('%d:-1.5, 0:10.0' % (n,))(ident)   # string form, unordered
            y4 = L.vec(g4(arg))
            obs.append(('masked-string-form', veq(y4, [10.0] + list(x[:n - 1]) + [-1.5] + list(x[n - 1:])) if len(y4) == n + 2 else const(False)))
            obs.append(('input-not-modified', veq(L.vec(arg), x)))
        elif which == 'partial':
            a, b = ctx.real('a'), ctx.real('b')
            g = T.partial({0: a, n - 1: b, n + 3: a})(ident)
            y = L.vec(g(arg))
            for i in range(n):
                want = b if i == n - 1 else (a if i == 0 else x[i])
                obs.append(('partial-fixes-addressed-entry[%d]' % i, eq(y[i], want)))
            obs.append(('idempotent', veq(L.vec(g(L.arr(y) if kind == 'array' else list(y))), y)))
        elif which == 'synchronized':
            k = ctx.real('k')
            g = T.synchronized({0: 1, 2: (1, k), n + 2: 0})(ident)
            y = L.vec(g(arg))
            obs.append(('tied-entry', eq(y[0], x[1])))
            obs.append(('tracked-entry-unchanged', eq(y[1], x[1])))
            if n > 2:
                obs.append(('scaled-tie', eq(y[2], k * x[1])))
            for i in range(3, n):
                obs.append(('unaddressed-entry-unchanged[%d]' % i, eq(y[i], x[i])))
            obs.append(('idempotent', veq(L.vec(g(L.arr(y) if kind == 'array' else list(y))), y)))
        elif which == 'clipped':
            lo, hi = ctx.real('lo'), ctx.real('hi')
            ctx.assume(le(lo, hi))
            g = T.clipped(lo, hi)(ident)
            y = L.vec(g(arg))
            for i in range(n):
                obs.append(('clipped[%d]' % i, eq(y[i], minv(maxv(x[i], lo), hi))))
            obs.append(('idempotent', veq(L.vec(g(L.arr(y) if kind == 'array' else list(y))), y)))
            g1 = T.clipped(lo, None)(ident)
            y1 = L.vec(g1(arg))
            obs.append(('one-sided-clip', veq(y1, [maxv(v, lo) for v in x])))
        elif which == 'suppressed':
            tol = ctx.real('tol')
            ctx.assume(gt(tol, 0))
            g = T.suppressed(tol)(ident)
            y = L.vec(g(arg))
            for i in range(n):
                obs.append(('suppressed[%d]' % i, eq(y[i], ite(lt(absv(x[i]), tol), R(0), x[i]))))
            obs.append(('idempotent', veq(L.vec(g(list(y))), y)))
            small = [lt(absv(v), tol) for v in x]
            ctx.assume(Not(And(*small)))       # all entries below tol with clip=False divides by zero (numpy: nan, no exception): outside the claim
            g2 = T.suppressed(tol, clip=False)(ident)
            y2 = L.vec(g2(arg))
            obs.append(('sum-preserving-variant-keeps-sum', Implies(Not(And(*small)), eq(sumv(y2), sumv(x)))))
            for i in range(n):
                obs.append(('sum-preserving-variant-zeros-small[%d]' % i, Implies(And(small[i], Not(And(*small))), eq(y2[i], 0))))
        return obs
    return h


# ----------------------------------------------------------------------------- bounds
INTERVALS = [((0.0, 5.0),), ((0.0, 5.0), (7.0, 10.0)), ((-2.0, -2.0),), ((None, 1.0),)]


def bounds(intervals, index, n, kind, clip):
    def h(ctx):
        import mystic.constraints as C
        bnds = [list(i) for i in intervals] if len(intervals) > 1 else tuple(intervals[0])
        g = C.impose_bounds(bnds, index=index, clip=clip)(ident)
        x, arg = inputs(ctx, n, kind)
        y = L.vec(g(arg))
        sel = set(range(n)) if index is None else set(i for i in index if 0 <= i < n)
        INF = float('inf')
        iv = [(-INF if a is None else a, INF if b is None else b) for a, b in intervals]

        def inside(v):
            return Or(*[And(le(a, v), le(v, b)) for a, b in iv])
        obs = []
        for i in range(n):
            if i in sel:
                obs.append(('selected-entry-inside-an-interval[%d]' % i, inside(y[i])))
                obs.append(('inside-entry-unchanged[%d]' % i, Implies(inside(x[i]), eq(y[i], x[i]))))
                if clip:
                    ends = [e for a, b in iv for e in (a, b) if abs(e) != INF]
                    obs.append(('clipped-entry-at-an-interval-end[%d]' % i, Or(inside(x[i]), Or(*[eq(y[i], e) for e in ends]))))
            else:
                obs.append(('unselected-entry-unchanged[%d]' % i, eq(y[i], x[i])))
        if clip:
            obs.append(('idempotent', veq(L.vec(g(L.arr(y) if kind == 'array' else list(y))), y)))
        return obs
    return h


# ----------------------------------------------------------------------------- unique
def uniq(n, full):
    def h(ctx):
        import mystic.constraints as C
        vals = [ctx.choose(3, 'v%d_' % i) for i in range(n)]          # every sequence over {0,1,2}: enumerated through the solver
        full_ = L.builtin(C, 'int') if full is int else full
        g = C.impose_unique(full_)(ident)
        try:
            y = list(g(list(vals)))
        except ValueError:
            # documented: raised when no unique sequence exists in the given set
            # documented: raised when no unique sequence exists in the given set (for full=int the set is range(min(seq), max(seq)+1))
            pool = list(full) if isinstance(full, (list, tuple)) else list(range(min(vals), max(vals) + 1))
            return [('rejects-only-impossible-requests', const(n > len(pool) or not set(vals) <= set(pool)))]
        obs = [('pairwise-distinct', const(len(set(y)) == n))]
        pool = list(full) if isinstance(full, (list, tuple)) else list(range(min(vals), max(vals) + 1)) if full is int else None
        if pool is not None:
            obs.append(('values-allowed', const(all(v in pool for v in y))))
        first = {}
        for i, v in enumerate(vals):
            first.setdefault(v, i)
        obs.append(('first-occurrences-kept', const(all(y[i] == v for v, i in first.items()))))
        obs.append(('already-unique-unchanged', const(len(set(vals)) < n or y == list(vals))))
        obs.append(('idempotent', const(list(g(list(y))) == y)))
        return obs
    return h


def instances(tier, seed):
    q = tier == 'quick'
    out = []
    n = 3
    kinds = ('list', 'array')
    idxs = INDEXES if q else INDEXES + [(5,), (0, 1, 2)]
    for index in idxs:
        for kind in kinds:
            tag = '%s/%s' % ('all' if index is None else ','.join(map(str, index)), kind)
            out.append(Instance('discrete/%s' % tag, elementwise('discrete', lambda C, i: C.discrete(list(SAMPLES), index=i), discrete_target,
                                                               lambda v: Or(*[eq(v, s) for s in SAMPLES]), n, index, kind)))
            out.append(Instance('integers/%s' % tag, elementwise('integers', lambda C, i: C.integers(float, index=i), int_target, is_int_hyp, n, index, kind)))
            for d in ((0, 1) if q else (0, 1, 2, -1)):
                out.append(Instance('rounded/digits=%d/%s' % (d, tag), elementwise('rounded', lambda C, i, d=d: C.rounded(d, index=i), digits_target(d),
                                                                                  lambda v, d=d: is_int_hyp(scaled(v, d)), n, index, kind)))
            out.append(Instance('precision/digits=1/%s' % tag, elementwise('precision', lambda C, i: C.precision(1, index=i), digits_target(1),
                                                                           lambda v: is_int_hyp(scaled(v, 1)), n, index, kind)))
    for which in ('discrete.samples', 'discrete.index', 'rounded.digits', 'integers.index', 'impose_bounds.clip'):
        for kind in kinds:
            out.append(Instance('reconfigured/%s/%s' % (which, kind), reconfigured(which, n, kind)))
    for which in ('sorting', 'monotonic'):
        for asc in (True, False):
            for index in ([None, (0, 2), (2, 0, 1), (1,)] if q else [None, (0, 2), (2, 0, 1), (1,), (-1, 0), (0, 1, 2, 3)]):
                for kind in kinds:
                    nn = 3 if (q or index != (0, 1, 2, 3)) else 4
                    out.append(Instance('%s/%s/%s/%s' % (which, 'asc' if asc else 'desc', 'all' if index is None else ','.join(map(str, index)), kind),
                                        ordering(which, asc, nn, index, kind)))
    if not q:
        out.append(Instance('sorting/asc/all/list/n=4', ordering('sorting', True, 4, None, 'list')))
    for index in ([0], [1, 5], [0, 2]):
        for kind in kinds:
            out.append(Instance('impose_at/%s/%s' % (','.join(map(str, index)), kind), pin(index, n, kind)))
    for mask in ([(0, 1)], [(0, 1), (1, 2)], [(0, 2), (0, 1)], [(0, 7)]):
        for kind in kinds:
            for wo in (False, True):
                out.append(Instance('impose_as/%s/%s/%s' % (mask, kind, 'offset' if wo else 'nooffset'), track(mask, n, kind, wo)))
    for which in ('with_mean', 'with_variance', 'with_std', 'with_spread', 'normalized'):
        for nn in ((2,) if which == 'with_std' else ((2, 3) if (q or which == 'with_variance') else (2, 3, 4))):
            out.append(Instance('%s/n=%d' % (which, nn), stat(which, nn), qtimeout=30000))
    for which in ('masked', 'partial', 'synchronized', 'clipped', 'suppressed'):
        for kind in kinds:
            out.append(Instance('tools.%s/%s' % (which, kind), rewriting(which, n, kind)))
    for iv in INTERVALS:
        for index in (None, (0,), (0, 5)):
            for clip in (True, False):
                for kind in (kinds if q is False else ('list',)):
                    if not clip and (iv == INTERVALS[3]):
                        continue
                    out.append(Instance('impose_bounds/%s/%s/clip=%s/%s' % (iv, 'all' if index is None else ','.join(map(str, index)), clip, kind),
                                        bounds(iv, index, n if index is None or q else n, kind, clip)))
    for nn in (2, 3):
        out.append(Instance('unique/n=%d/full=[0,1,2,3]' % nn, uniq(nn, [0, 1, 2, 3])))
        out.append(Instance('unique/n=%d/full=int' % nn, uniq(nn, int)))
    out.append(Instance('unique/n=3/full=[0,1]', uniq(3, [0, 1])))
    return out
