"""C19 - discrete measures: parameter-vector round trips and product structure.

Real code executed: math.discrete.point_mass/measure/product_measure/scenario (flatten, load, update, weights, positions,
mass, npts, pts, wts, pos, expect, expect_var, pof, support, center_mass/range/var setters, values, mean_value,
pof_value), compose/decompose/flatten/unflatten, math.measures._pack/_unpack/_nested/_flat/_nested_split/split_param,
expectation/expected_variance/support/impose_mean/impose_spread/impose_variance, constraints.impose_measure.
Symbolic: every weight, position and attached value, the integrand f and the failure predicate g (uninterpreted).
Enumerated: shapes (number of factor measures and points per factor).
"""
import itertools
from symex.engine import Instance
from symex.values import Ctx
from symex.ob import (eq, ne, le, lt, ge, gt, And, Or, Not, Implies, Iff, const, ite, absv, maxv, minv, R,
                      sumv, isinf, veq)
from harness import solverlib as L

PROPERTY = 'C19'
LEVEL = 'model_checking'
ASSUMPTIONS = [
    'floats modelled as exact reals; NaN outside the claim',
    'weights are arbitrary reals for the structural round trips; for expect / expect_var / pof / support they are >= 0 with positive total (a measure)',
    'center_mass / range / var setters: weights are enumerated exact rationals (symbolic weights make the nonlinear queries time out), positions symbolic, non-degenerate range/variance',
    'integrand f and failure indicator g are uninterpreted functions of the position tuple',
]
BOUNDS = {'quick': dict(shapes='<=3 factors x <=3 points (8 shapes); statistics for <=6 product points, support sets for <=4'), 'thorough': dict(shapes='<=3 factors x <=3 points (all 39 shapes); statistics for <=4 product points (6 with <=2 factors), support sets for <=4')}
BUDGET = {'quick': 1800, 'thorough': 3600}

SHAPES_Q = [(1,), (2,), (3,), (2, 2), (1, 3), (3, 2), (2, 1, 2), (1, 1, 1), (2, 3, 2)]


def all_shapes():
    out = []
    for k in (1, 2, 3):
        out += list(itertools.product((1, 2, 3), repeat=k))
    return out


def make(ctx, shape, pfx='', alias=False):
    wts = [ctx.reals('%sw%d_' % (pfx, i), n) for i, n in enumerate(shape)]
    pos = [ctx.reals('%sx%d_' % (pfx, i), n) for i, n in enumerate(shape)]
    if alias:
        # repeated positions / weights: the SAME value occupies several slots (within a factor and across factors)
        for p in pos:
            if len(p) > 1:
                p[1] = p[0]
        if len(pos) > 1:
            pos[1][-1] = pos[0][0]
        for w in wts:
            if len(w) > 2:
                w[2] = w[0]
    return wts, pos


def nested_eq(a, b):
    a, b = [L.vec(v) for v in a], [L.vec(v) for v in b]
    if len(a) != len(b) or any(len(u) != len(v) for u, v in zip(a, b)):
        return const(False)
    return And(*[veq(u, v) for u, v in zip(a, b)]) if a else const(True)


def pack_order(factors):
    """documented order of the product points: the first factor varies fastest"""
    idx = [range(len(f)) for f in factors]
    out = []
    for combo in itertools.product(*reversed(idx)):
        combo = tuple(reversed(combo))
        out.append(tuple(factors[k][i] for k, i in enumerate(combo)))
    return out


def roundtrips(shape, alias=False):
    def h(ctx):
        import mystic.math.discrete as md
        import mystic.math.measures as mm
        wts, pos = make(ctx, shape, alias=alias)
        c = md.compose([list(p) for p in pos], [list(w) for w in wts])
        obs = [('compose-keeps-weights', nested_eq(c.wts, wts)), ('compose-keeps-positions', nested_eq(c.pos, pos)),
               ('pts', const(list(c.pts) == list(shape)))]
        flat = c.flatten()
        want = []
        for w, p in zip(wts, pos):
            want += list(w) + list(p)
        obs.append(('flatten-layout', veq(flat, want)))
        c2 = md.product_measure().load(list(flat), list(shape))
        obs.append(('flatten-load-weights', nested_eq(c2.wts, wts)))
        obs.append(('flatten-load-positions', nested_eq(c2.pos, pos)))
        c3 = md.unflatten(list(flat), list(shape))
        obs.append(('unflatten-weights', nested_eq(c3.wts, wts)))
        obs.append(('unflatten-positions', nested_eq(c3.pos, pos)))
        x, w = md.decompose(c)
        obs.append(('decompose-compose', And(nested_eq(x, pos), nested_eq(w, wts))))
        c4 = md.compose(x, w)
        obs.append(('compose-decompose', veq(c4.flatten(), flat)))
        packed = mm._pack([list(p) for p in pos])
        obs.append(('pack-order', const(len(packed) == len(pack_order(pos))) if len(packed) != len(pack_order(pos)) else
                    And(*[veq(list(a), list(b)) for a, b in zip(packed, pack_order(pos))])))
        obs.append(('unpack-pack', nested_eq(mm._unpack(packed, list(shape)), pos)))
        c5 = md.compose([list(p) for p in pos], [list(w) for w in wts])
        c5.positions = c5.positions            # the positions setter unpacks the product points back into the factors
        obs.append(('positions-setter-round-trip', nested_eq(c5.pos, pos)))
        obs.append(('nested-flat', nested_eq(mm._nested(mm._flat([list(p) for p in pos]), list(shape)), pos)))
        ws, xs = mm.split_param(list(flat), list(shape))
        obs.append(('split_param', And(veq(ws, [v for w_ in wts for v in w_]), veq(xs, [v for p in pos for v in p]))))
        return obs
    return h


def structure(shape):
    def h(ctx):
        import mystic.math.discrete as md
        wts, pos = make(ctx, shape)
        c = md.compose([list(p) for p in pos], [list(w) for w in wts])
        obs = [('npts-is-product', const(int(c.npts) == len(pack_order(pos))))]
        pw = [L.R_(1)] and None
        prodw = []
        for combo in pack_order(wts):
            v = R(1)
            for t in combo:
                v = v * t
            prodw.append(v)
        obs.append(('point-weights-are-products-of-factor-weights', veq(c.weights, prodw)))
        obs.append(('positions-are-cartesian-product-in-documented-order',
                    And(*[veq(list(a), list(b)) for a, b in zip(c.positions, pack_order(pos))]) if len(c.positions) == len(pack_order(pos)) else const(False)))
        obs.append(('mass-per-factor', veq(c.mass, [sumv(w) for w in wts])))
        total = R(1)
        for w in wts:
            total = total * sumv(w)
        obs.append(('total-weight-is-product-of-masses', eq(sumv(L.vec(c.weights)), total)))
        return obs
    return h


def statistics(shape):
    def h(ctx):
        import mystic.math.discrete as md
        wts, pos = make(ctx, shape)
        for w in wts:
            for v in w:
                ctx.assume(ge(v, 0))
            ctx.assume(gt(sumv(w), 0))
        c = md.compose([list(p) for p in pos], [list(w) for w in wts])
        dim = len(shape)
        f = ctx.ufunc('f', dim)
        g = ctx.ufunc('g', dim)
        F = lambda x: f(list(x))
        G = lambda x: g(list(x))
        pts = pack_order(pos)
        pw = []
        for combo in pack_order(wts):
            v = R(1)
            for t in combo:
                v = v * t
            pw.append(v)
        W = sumv(pw)
        fx = [f(list(p)) for p in pts]
        E = c.expect(F)
        obs = [('expect-is-weighted-sum', eq(E * W, sumv([a * b for a, b in zip(fx, pw)])))]
        u = c.pof(G)
        gx = [g(list(p)) for p in pts]
        obs.append(('pof-is-weight-of-failing-points', eq(u, sumv([ite(le(gv, 0), wv, R(0)) for gv, wv in zip(gx, pw)]))))
        return obs
    return h


def support_sets(shape):
    def h(ctx):
        import mystic.math.discrete as md
        wts, pos = make(ctx, shape)
        for w in wts:
            for v in w:
                ctx.assume(ge(v, 0))
            ctx.assume(gt(sumv(w), 0))
        c = md.compose([list(p) for p in pos], [list(w) for w in wts])
        pts = pack_order(pos)
        pw = []
        for combo in pack_order(wts):
            v = R(1)
            for t in combo:
                v = v * t
            pw.append(v)
        obs = []
        tol = ctx.real('tol')
        ctx.assume(ge(tol, 0))
        sup_t = c.support(tol)
        want_t = [p for p, wv in zip(pts, pw) if bool(gt(wv, tol))]
        obs.append(('support(tol)-is-points-with-weight-above-tol', And(*[veq(list(a), list(b)) for a, b in zip(sup_t, want_t)]) if len(sup_t) == len(want_t) else const(False)))
        idx = c.support_index(tol)
        obs.append(('support_index(tol)', const(list(idx) == [i for i, wv in enumerate(pw) if bool(gt(wv, tol))])))
        sup = c.support()
        want = [p for p, wv in zip(pts, pw) if bool(gt(wv, 0))]
        obs.append(('support-is-points-with-positive-weight', And(*[veq(list(a), list(b)) for a, b in zip(sup, want)]) if len(sup) == len(want) else const(False)))
        return obs
    return h


def expect_var(shape, weights):
    def h(ctx):
        import mystic.math.discrete as md
        pos = [ctx.reals('x%d_' % i, n) for i, n in enumerate(shape)]
        wts = [[R(v) for v in w] for w in weights]
        c = md.compose([list(p) for p in pos], [list(w) for w in wts])
        dim = len(shape)
        f = ctx.ufunc('f', dim)
        F = lambda x: f(list(x))
        pts = pack_order(pos)
        pw = []
        for combo in pack_order(wts):
            v = R(1)
            for t in combo:
                v = v * t
            pw.append(v)
        W = sumv(pw)
        fx = [f(list(p)) for p in pts]
        m = sumv([a * b for a, b in zip(fx, pw)]) / W
        obs = [('expect', eq(c.expect(F), m)),
               ('expect_var', eq(c.expect_var(F), sumv([(a - m) * (a - m) * b for a, b in zip(fx, pw)]) / W))]
        return obs
    return h


def setters(n, w):
    def h(ctx):
        import mystic.math.discrete as md
        x = ctx.reals('x', n)
        ww = [R(v) for v in w]
        t = ctx.real('t')

        def build():
            m = md.measure()
            for xi, wi in zip(x, ww):
                m.append(md.point_mass(xi, wi))
            return m
        wmean = lambda v: sumv([a * b for a, b in zip(v, ww)]) / sumv(ww)
        wvar = lambda v: sumv([(a - wmean(v)) * (a - wmean(v)) * b for a, b in zip(v, ww)]) / sumv(ww)
        obs = []
        m1 = build()
        m1.center_mass = t
        obs.append(('set-center_mass', eq(wmean(L.vec(m1.positions)), t)))
        obs.append(('center_mass-getter', eq(m1.center_mass, wmean(L.vec(m1.positions)))))
        obs.append(('weights-untouched', veq(m1.weights, ww)))
        if n > 1:
            ctx.assume(gt(maxv(*x) - minv(*x), 0))
            ctx.assume(gt(t, 0))
            m2 = build()
            m2.range = t
            p2 = L.vec(m2.positions)
            obs.append(('set-range', eq(maxv(*p2) - minv(*p2), t)))
            obs.append(('range-getter', eq(m2.range, maxv(*p2) - minv(*p2))))
            if sum(1 for v in w if v > 0) > 1:
                ctx.assume(gt(wvar(x), 0))
                m3 = build()
                m3.var = t
                obs.append(('set-var', eq(wvar(L.vec(m3.positions)), t)))
                obs.append(('var-getter', eq(m3.var, wvar(L.vec(m3.positions)))))
        obs.append(('mass', eq(build().mass, sumv(ww))))
        return obs
    return h


def update(shape, k):
    """update() with a parameter vector covering only the first k factor measures changes exactly those"""
    def h(ctx):
        import mystic.math.discrete as md
        wts, pos = make(ctx, shape)
        nw, npz = make(ctx, shape[:k], 'n')
        c = md.compose([list(p) for p in pos], [list(w) for w in wts])
        params = []
        for w, p in zip(nw, npz):
            params += list(w) + list(p)
        c.update(params)
        obs = [('shape-kept', const(list(c.pts) == list(shape)))]
        obs.append(('addressed-weights-updated', nested_eq(c.wts[:k], nw)))
        obs.append(('addressed-positions-updated', nested_eq(c.pos[:k], npz)))
        obs.append(('other-weights-unchanged', nested_eq(c.wts[k:], wts[k:])))
        obs.append(('other-positions-unchanged', nested_eq(c.pos[k:], pos[k:])))
        return obs
    return h


def scenarios(shape):
    def h(ctx):
        import mystic.math.discrete as md
        wts, pos = make(ctx, shape)
        npts = 1
        for n in shape:
            npts *= n
        vals = ctx.reals('y', npts)
        pm = md.compose([list(p) for p in pos], [list(w) for w in wts])
        s = md.scenario(pm, list(vals))
        obs = [('values-kept', veq(s.values, vals)), ('weights', nested_eq(s.wts, wts)), ('positions', nested_eq(s.pos, pos))]
        flat = s.flatten()
        want = []
        for w, p in zip(wts, pos):
            want += list(w) + list(p)
        obs.append(('flatten-appends-values', veq(flat, want + list(vals))))
        obs.append(('flatten-without-values', veq(s.flatten(all=False), want)))
        s2 = md.scenario().load(list(flat), list(shape))
        obs.append(('load-round-trip', And(nested_eq(s2.wts, wts), nested_eq(s2.pos, pos), veq(s2.values, vals))))
        # update with new values only for a prefix of the values
        nv = ctx.reals('ny', max(1, npts - 1))
        s.update(want + list(nv))
        obs.append(('update-values-prefix', veq(s.values, list(nv) + list(vals[len(nv):]))))
        obs.append(('update-keeps-measure', And(nested_eq(s.wts, wts), nested_eq(s.pos, pos))))
        for w in wts:
            for v in w:
                ctx.assume(ge(v, 0))
            ctx.assume(gt(sumv(w), 0))
        pw = []
        for combo in pack_order(wts):
            v = R(1)
            for t in combo:
                v = v * t
            pw.append(v)
        sv = L.vec(s.values)
        obs.append(('mean_value', eq(s.mean_value() * sumv(pw), sumv([a * b for a, b in zip(sv, pw)]))))
        g = ctx.ufunc('g', 1)
        obs.append(('pof_value', eq(s.pof_value(lambda y: g([y])), sumv([ite(le(g([y]), 0), wv, R(0)) for y, wv in zip(sv, pw)]))))
        return obs
    return h


def instances(tier, seed):
    q = tier == 'quick'
    out = []
    shapes = SHAPES_Q if q else all_shapes()
    for sh in shapes:
        tag = 'x'.join(map(str, sh))
        out.append(Instance('roundtrips/%s' % tag, roundtrips(sh)))
        if max(sh) > 1:
            out.append(Instance('roundtrips/%s/repeated-values' % tag, roundtrips(sh, alias=True)))
        out.append(Instance('structure/%s' % tag, structure(sh), context_free_first=True))
        npts = 1
        for n in sh:
            npts *= n
        if npts <= 4 or (npts <= 6 and len(sh) <= 2):
            out.append(Instance('statistics/%s' % tag, statistics(sh), context_free_first=True))
        if npts <= 4:
            out.append(Instance('support/%s' % tag, support_sets(sh)))
            out.append(Instance('scenario/%s' % tag, scenarios(sh), context_free_first=True))
        for k in range(1, len(sh) + 1):
            out.append(Instance('update/%s/first=%d' % (tag, k), update(sh, k)))
    for sh, w in (((2,), [[1.0, 3.0]]), ((2, 2), [[0.5, 0.5], [1.0, 0.0]]), ((3,), [[1.0, 1.0, 2.0]]), ((2, 1), [[2.0, 1.0], [4.0]])):
        out.append(Instance('expect_var/%s/w=%s' % ('x'.join(map(str, sh)), w), expect_var(sh, w), context_free_first=True))
    for n, w in ((1, [2.0]), (2, [1.0, 3.0]), (3, [0.5, 0.0, 2.0]), (3, [1.0, 1.0, 2.0])):
        out.append(Instance('setters/n=%d/w=%s' % (n, w), setters(n, w), qtimeout=60000))
    return out
