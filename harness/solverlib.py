"""Shared machinery for the solver-step harnesses (C01-C08).

A `World` holds the user-supplied parts of a solve as solver-quantified objects: the raw cost `f`
(uninterpreted function; optionally array-valued with the real `sum` reducer), the penalty `p >= 0`,
the constraints function `c` (uninterpreted, idempotent, optionally box-preserving, pure or in-place),
the strict box [lo, hi] (symbolic), and the log of every argument the raw cost received.
`setup_*` builds a real mystic solver in an ARBITRARY state satisfying the representation invariant the
step harnesses show to be inductive; `run_step` performs one real `Step()`.

Everything is written with symex.ob helpers, so the same code replays concretely on the unhooked mystic.
"""
import numpy as _np
from symex.values import Ctx, unwrap
from symex.ob import (eq, ne, le, lt, ge, gt, And, Or, Not, Implies, Iff, const, ite, absv, maxv, minv, R,
                      sumv, isinf, veq)

R_ = R
INF = float('inf')
BIG = 10 ** 6


def sym():
    return Ctx.mode == 'sym'


def arr(xs):
    """an ndarray the way the solver under test would hold it (object dtype when symbolic)"""
    xs = [unwrap(v) for v in xs]
    if sym():
        from symex.loader import SymArray
        a = _np.empty(len(xs), dtype=object)
        for i, v in enumerate(xs):
            a[i] = v
        return a.view(SymArray)
    return _np.array([float(v) for v in xs], dtype=float)


def mat(rows):
    rows = [[unwrap(v) for v in r] for r in rows]
    if sym():
        a = _np.empty((len(rows), len(rows[0])), dtype=object)
        for i, r in enumerate(rows):
            for j, v in enumerate(r):
                a[i, j] = v
        from symex.loader import SymArray
        return a.view(SymArray)
    return _np.array([[float(v) for v in r] for r in rows], dtype=float)


def vec(x):
    """plain python list of scalars from list / ndarray"""
    x = unwrap(x)
    if hasattr(x, 'tolist') and not hasattr(x, 'z'):
        x = x.tolist()
    if not isinstance(x, (list, tuple)):
        return [unwrap(x)]
    return [unwrap(v) for v in x]


def scalar(v):
    v = unwrap(v)
    if isinstance(v, (list, tuple)) and len(v) == 1:
        return unwrap(v[0])
    return v


class World(object):
    def __init__(self, ctx, dim, box=False, cons=None, pen=False, ncost=1, boxkeep=True):
        self.ctx, self.dim = ctx, dim
        self.ncost = ncost
        self.f = ctx.ufunc('f', dim) if ncost == 1 else ctx.ufunc('f', dim, nout=ncost)
        self.p = ctx.ufunc('p', dim) if pen else None
        self.c = ctx.ufunc('c', dim, nout=dim) if cons else None
        self.cons = cons            # None | 'pure' | 'inplace'
        self.boxkeep = boxkeep      # constraints map the box into itself (C01/C03 precondition)
        self.lo = self.hi = None
        if box:
            self.lo = ctx.reals('lo', dim)
            self.hi = ctx.reals('hi', dim)
            for a, b in zip(self.lo, self.hi):
                ctx.assume(le(a, b))
        self.calls = []             # every argument the RAW cost received
        self.values = []            # ... and what it returned (reduced)
        self.cons_calls = 0
        self.callbacks = []

    # ---- user-supplied callables handed to mystic
    def cost(self, x):
        xs = vec(x)
        self.calls.append(xs)
        if self.ncost == 1:
            r = self.f(xs)
            self.values.append(r)
            return r
        r = self.f(xs)
        self.values.append(sumv(r))
        return arr(r)

    def penalty(self, x):
        # an arbitrary real: barrier / Lagrange penalties are legitimately negative inside the feasible region
        return self.p(vec(x))

    def constraint(self, x):
        xs = vec(x)
        self.cons_calls += 1
        y = self.c(xs)
        self.ctx.assume(veq(self.c(y), y))
        if self.lo is not None and self.boxkeep:
            self.ctx.assume(self._keeps_box(xs, y))
        if self.cons == 'inplace':
            for i in range(len(xs)):
                x[i] = y[i]
            return x
        return list(y) if isinstance(x, list) else arr(y)

    def callback(self, x):
        self.callbacks.append(vec(x))

    # ---- oracle side (no forking)
    def inside(self, x):
        if self.lo is None:
            return const(True)
        return And(*[And(le(self.lo[i], x[i]), le(x[i], self.hi[i])) for i in range(self.dim)])

    def clip(self, x):
        if self.lo is None:
            return list(x)
        return [minv(maxv(x[i], self.lo[i]), self.hi[i]) for i in range(self.dim)]

    def C(self, x):
        """oracle value of the constraints function at x (registers idempotence / box facts)"""
        if self.c is None:
            return list(x)
        y = self.c(list(x))
        self.ctx.assume(veq(self.c(y), y))
        if self.lo is not None and self.boxkeep:
            self.ctx.assume(self._keeps_box(list(x), y))
        return y

    def _keeps_box(self, x, y):
        """the constraints are compatible with the strict ranges: box -> box.  With `margin` (a per-coordinate d >= 0, set by
        harnesses whose ranges go through mystic's 15-digit text form) compatibility holds robustly: [lo-d, hi+d] -> [lo+d, hi-d]"""
        m = getattr(self, 'margin', None)
        if not m:
            return Implies(self.inside(x), self.inside(y))
        wide = And(*[And(le(self.lo[i] - m[i], x[i]), le(x[i], self.hi[i] + m[i])) for i in range(self.dim)])
        narrow = And(*[And(le(self.lo[i] + m[i], y[i]), le(y[i], self.hi[i] - m[i])) for i in range(self.dim)])
        return Implies(wide, narrow)

    def feasible(self, x):
        """x is a fixed point of the constraints function"""
        if self.c is None:
            return const(True)
        return veq(self.c(list(x)), list(x))

    def raw(self, x):
        """reducer(cost(x)) + penalty(x) for x inside the box (oracle)"""
        x = list(x)
        v = self.f(x) if self.ncost == 1 else sumv(self.f(x))
        if self.p is not None:
            v = v + self.p(x)
        return v

    def energy_is(self, E, x):
        """E is the decorated objective (without constraints) at x: inf outside the box, cost+penalty inside"""
        E = scalar(E)
        if isinf(E):
            return And(const(E > 0), Not(self.inside(x))) if self.lo is not None else const(False)
        return And(self.inside(x), eq(E, self.raw(x)))

    def was_called_at(self, x):
        x = list(x)
        return Or(*[veq(c, x) for c in self.calls]) if self.calls else const(False)


# --------------------------------------------------------------------------- solver construction
def never():
    """a termination condition that never holds (limits/termination are C05/C10's business)"""
    from mystic.termination import VTR
    return VTR(-1.0)


def configure(s, w, strict_kwds=None):
    s.SetEvaluationLimits(BIG, BIG)
    s.SetTermination(never())
    if w.lo is not None:
        s.SetStrictRanges(arr(w.lo), arr(w.hi), **(strict_kwds or {}))
    if w.c is not None:
        s.SetConstraints(w.constraint)
    if w.p is not None:
        s.SetPenalty(w.penalty)
    if w.ncost > 1:
        s.SetReducer(sum, arraylike=True)
    s.SetObjective(w.cost)
    return s


def log_generations(s, n, x, e):
    """pretend n+1 step-monitor records exist (generations == n)"""
    for _ in range(n + 1):
        s._stepmon(vec(x), scalar(e), s.id)


def de_prestate(ctx, w, s, NP, finite=True):
    """arbitrary DE state after >= 1 generation satisfying the invariant:
       members inside the box and fixed by c, E_i = cost+penalty at member i, best = some member with the
       minimal energy."""
    dim = w.dim
    P = [ctx.reals('P%d_' % i, dim) for i in range(NP)]
    E = []
    for i in range(NP):
        ctx.assume(w.inside(P[i]))
        ctx.assume(w.feasible(P[i]))
        E.append(w.raw(P[i]))
    jb = [ctx.bool('best_is_%d' % i) for i in range(NP)]
    ctx.assume(Or(*jb))
    best = ctx.reals('B', dim)
    bestE = ctx.real('BE')
    for i in range(NP):
        ctx.assume(le(bestE, E[i]))
        ctx.assume(Implies(jb[i], And(veq(best, P[i]), eq(bestE, E[i]))))
    boxed = w.lo is not None
    s.population = [arr(p) if boxed else list(p) for p in P]
    s.popEnergy = list(E)
    s.bestSolution = arr(best)
    s.bestEnergy = bestE
    log_generations(s, 1, best, bestE)
    return P, E, best, bestE


def nm_prestate(ctx, w, s):
    """arbitrary sorted simplex with E_i = decorated objective at vertex i (generation >= 1)"""
    dim = w.dim
    V = [ctx.reals('V%d_' % i, dim) for i in range(dim + 1)]
    E = []
    for i in range(dim + 1):
        cv = w.C(V[i])
        ctx.assume(w.inside(cv))
        E.append(w.raw(cv))
    for i in range(dim):
        ctx.assume(le(E[i], E[i + 1]))
    # the best vertex is stored constrained (established by every step)
    ctx.assume(w.feasible(V[0]))
    s.population = mat(V)
    s.popEnergy = arr(E)
    log_generations(s, 1, V[0], E[0])
    return V, E


def state_of(s):
    pop = [vec(p) for p in s.population]
    en = [scalar(e) for e in vec(s.popEnergy)]
    return pop, en, vec(s.bestSolution), scalar(s.bestEnergy)


def builtin(mod, name):
    """the builtin `name` as seen by code of module `mod` (the symbolic loader substitutes float/int)"""
    b = getattr(mod, '__builtins__', None)
    if isinstance(b, dict) and name in b:
        return b[name]
    import builtins as _b
    return getattr(_b, name)
