"""C04 - best-so-far never worsens; counters, monitors and callbacks are faithful.

Real code executed: the step scenarios of C01 with a real Monitor as evaluation monitor and a callback stub,
tools.wrap_function (counter + monitor), Monitor.__call__/prepend, AbstractSolver.evaluations/generations/
energy_history/SetEvaluationMonitor/SetGenerationMonitor/Finalize, Powell.Finalize/__generations,
DE2's counter recomputation; API-call programs (Step / Set* / Finalize / Solve sequences).
"""
import itertools
from symex.engine import Instance
from symex.values import Ctx
from symex import stubs
from symex.ob import (eq, ne, le, lt, ge, gt, And, Or, Not, Implies, Iff, const, ite, absv, maxv, minv, R,
                      sumv, isinf, veq)
from harness import solverlib as L
from harness import steps as S
from harness import c01

PROPERTY = 'C04'
LEVEL = 'model_checking'
ASSUMPTIONS = [
    'floats modelled as exact reals; NaN outside the claim',
    'constraints deterministic and idempotent, penalty an arbitrary real-valued function (as in C01)',
    'monitors: the plain in-memory Monitor, initially empty, default in-process map (verbose/logging monitors print or write text: outside the claim)',
    'DE: one focus candidate per instance has solver-chosen random draws; Powell: Brent replaced by its contract (which evaluates func(0) and func(alpha): both are counted calls)',
    'API-call programs: enumerated sequences (bounded length) of Step/Set*/Finalize/Solve(maxiter) on NM, Powell and DE; numeric state symbolic',
]
BOUNDS = {'quick': dict(dim='1..2', NP=4, steps=1, program_length='<=3 (selected)'),
          'thorough': dict(dim='1..3', NP='4..6', steps=1, program_length='<=4')}
BUDGET = {'quick': 1800, 'thorough': 5400}


def evalmon_matches(r, start_calls, start_mon):
    """the evaluation monitor gained exactly the (x, cost(x)) pairs of the raw calls, in call order"""
    w, em = r.w, r.evalmon
    obs = []
    if em is None:
        return obs
    xs, ys = em._x[start_mon:], em._y[start_mon:]
    calls, vals = w.calls[start_calls:], w.values[start_calls:]
    obs.append(('evaluation-monitor-grew-by-number-of-calls', const(len(xs) == len(calls))))
    for k in range(min(len(xs), len(calls))):
        obs.append(('evaluation-monitor-x[%d]' % k, veq(L.vec(xs[k]), calls[k])))
        y = ys[k]
        if w.ncost == 1:
            obs.append(('evaluation-monitor-y[%d]' % k, eq(L.scalar(y), vals[k])))
    return obs


def oblig(r):
    w, k = r.w, r.kind
    obs = []
    if k in ('de-step', 'de-gen0', 'nm-step'):
        pre, post = r.pre, r.post
        ncalls = post['ncalls'] - pre['ncalls']
        obs.append(('evaluations-advanced-by-number-of-cost-calls', eq(post['evals'] - pre['evals'], ncalls)))
        obs.append(('generation-counter-advanced-by-one', const(post['gens'] == pre['gens'] + (1 if pre['nstep'] else 0))))
        obs.append(('one-step-monitor-record', const(post['nstep'] == pre['nstep'] + 1)))
        sx, sy = r.s._stepmon._x[-1], r.s._stepmon._y[-1]
        obs.append(('step-monitor-record-is-reported-best', And(veq(L.vec(sx), post['best']),
                                                              eq(L.scalar(sy), post['bestE']) if not isinf(post['bestE']) else const(isinf(L.scalar(sy))))))
        obs.append(('callback-once', const(post['ncb'] == pre['ncb'] + 1)))
        if post['ncb'] > pre['ncb']:
            obs.append(('callback-got-current-best', veq(w.callbacks[-1], post['best'])))
        eh = [L.scalar(e) for e in r.s.energy_history]
        for i in range(len(eh) - 1):
            obs.append(('energy-history-non-increasing[%d]' % i, le(eh[i + 1], eh[i])))
        obs.append(('energy-history-ends-in-best', eq(eh[-1], post['bestE']) if not isinf(post['bestE']) else const(isinf(eh[-1]))))
        obs += evalmon_matches(r, pre['ncalls'], pre['ncalls'] - 0 if False else (len(r.evalmon) - ncalls if r.evalmon is not None else 0))
    elif k in ('nm-start', 'powell'):
        pre, post = r.before, r.post
        ncalls = post['ncalls'] - pre['ncalls']
        obs.append(('evaluations-advanced-by-number-of-cost-calls@%d' % r.g, eq(post['evals'] - pre['evals'], ncalls)))
        obs.append(('evaluations-total@%d' % r.g, eq(post['evals'], post['ncalls'])))
        obs.append(('callback-once@%d' % r.g, const(post['ncb'] == pre['ncb'] + 1)))
        if post['ncb'] > pre['ncb']:
            obs.append(('callback-got-current-best@%d' % r.g, veq(w.callbacks[-1], post['best'])))
        obs.append(('generation-counter@%d' % r.g, const(post['gens'] == r.g)))
        eh = [L.scalar(e) for e in r.s.energy_history]
        for i in range(len(eh) - 1):
            obs.append(('energy-history-non-increasing@%d[%d]' % (r.g, i), le(eh[i + 1], eh[i])))
        obs.append(('energy-history-ends-in-best@%d' % r.g, eq(eh[-1], post['bestE']) if not isinf(post['bestE']) else const(isinf(eh[-1]))))
        if k == 'nm-start':
            obs.append(('one-step-monitor-record@%d' % r.g, const(post['nstep'] == pre['nstep'] + 1)))
        if r.evalmon is not None:
            obs += [(n + '@%d' % r.g, o) for n, o in evalmon_matches(r, 0, 0)]
    elif k == 'wrapper':
        out = r.out
        obs.append(('funcalls-is-number-of-cost-calls', const(out[3] == len(w.calls))))
    return obs


# ----------------------------------------------------------------------------- API-call programs
FINALIZING = ('Finalize', 'SetPenalty', 'SetConstraints', 'SetStrictRanges', 'SetEvalMon', 'SetGenMon', 'Solve0', 'Solve1')
OPS = ('Step', 'SetPenalty', 'SetConstraints', 'SetStrictRanges', 'SetLimitsNew', 'Finalize', 'SetEvalMon', 'Solve1', 'SetGenMon', 'Solve0')


def program(kind, prog, dim=1, nomon=False):
    """public API only, from an arbitrary initial guess; after every call: evaluations == total number of calls of the
    user's cost; the evaluation monitor holds exactly those calls in order; best history non-increasing (while the
    objective is unchanged); step monitor of a stopped run ends in the reported result"""
    def h(ctx):
        from mystic.monitors import Monitor
        w = L.World(ctx, dim)
        s = S.make_solver(kind, dim)
        L.configure(s, w)
        em = Monitor()
        if not nomon:
            s.SetEvaluationMonitor(em)
        if kind == 'Powell':
            S.install_brent_contract(ctx)
        x0 = ctx.reals('x', dim)
        if kind in ('DE', 'DE2'):
            for i in range(s.nPop):
                s.population[i] = [x0[j] + i for j in range(dim)]
            stubs.ORACLE.override = S.FixedDraws()
        else:
            s.population[0] = list(x0)
        obs = []
        mons = [] if nomon else [em]
        since = 0              # number of cost calls made before the current monitor chain was first installed
        objective_changed_at = []
        try:
            flushed = False
            for j, op in enumerate(prog):
                # Powell logs a generation's record lazily; Finalize (called by every Set*) on a live solver flushes it.  Histories
                # in which that happens with nothing pending, or which continue afterwards, are the recorded finding D17.
                hazard = kind == 'Powell' and (flushed or (op in FINALIZING and not op.startswith('Solve') and len(w.callbacks) == 1)
                                               or (op == 'SetGenMon' and len(w.callbacks) >= 1))
                if op == 'Step':
                    s.Step(callback=w.callback)
                elif op == 'SetPenalty':
                    w.p = ctx.ufunc('p', dim)
                    s.SetPenalty(w.penalty)
                    objective_changed_at.append(j)
                elif op == 'SetConstraints':
                    w.c = ctx.ufunc('c', dim, nout=dim)
                    w.cons = 'pure'
                    s.SetConstraints(w.constraint)
                    objective_changed_at.append(j)
                elif op == 'SetStrictRanges':
                    lo, hi = ctx.reals('lo', dim), ctx.reals('hi', dim)
                    for a, b in zip(lo, hi):
                        ctx.assume(le(a, b))
                    w.lo, w.hi = lo, hi
                    s.SetStrictRanges(L.arr(lo), L.arr(hi))
                    objective_changed_at.append(j)
                elif op == 'SetLimitsNew':
                    s.SetEvaluationLimits(L.BIG, L.BIG, new=True)
                elif op == 'Finalize':
                    s.Finalize()
                elif op == 'SetEvalMon':
                    m = Monitor()
                    if not mons:
                        since = len(w.calls)
                    s.SetEvaluationMonitor(m)       # documented: existing data is prepended
                    mons.append(m)
                elif op == 'Solve1':
                    s.SetEvaluationLimits(generations=1, new=True)
                    s.Solve(callback=w.callback)
                    s.SetEvaluationLimits(L.BIG, L.BIG)
                elif op == 'Solve0':
                    s.SetEvaluationLimits(generations=0, new=True)
                    s.Solve(callback=w.callback)
                    s.SetEvaluationLimits(L.BIG, L.BIG)
                elif op == 'SetGenMon':
                    s.SetGenerationMonitor(Monitor())      # documented: existing data is prepended
                if op in ('Finalize', 'Solve1', 'Solve0') and (len(w.calls) > 0):
                    # a stopped / finalized run: one record per generation, ending in the reported result
                    sm = s._stepmon
                    obs.append(('step-monitor-has-generations+1-records@%d:%s' % (j, op), const(len(sm) == s.generations + 1)))
                    if len(sm):
                        be = L.scalar(s.bestEnergy)
                        obs.append(('step-monitor-ends-in-reported-result@%d:%s' % (j, op),
                                    And(veq(L.vec(sm._x[-1]), L.vec(s.bestSolution)), eq(L.scalar(sm._y[-1]), be) if not isinf(be) else const(isinf(L.scalar(sm._y[-1]))))))
                    eh = [L.scalar(e) for e in s.energy_history]
                    obs.append(('energy-history-ends-in-best@%d:%s' % (j, op), const(len(eh) > 0) if not len(eh) else (eq(eh[-1], L.scalar(s.bestEnergy)) if not isinf(eh[-1]) else const(isinf(L.scalar(s.bestEnergy))))))
                obs.append(('evaluations==total-cost-calls@%d:%s' % (j, op), eq(s.evaluations, len(w.calls))))
                if w.callbacks:
                    # one callback per iteration (checked by the step instances); generation 0 is the first of them
                    tag = '-powell-after-finalizing-a-live-run' if hazard else ''
                    obs.append(('generations==completed-iterations%s@%d:%s' % (tag, j, op), const(s.generations == len(w.callbacks) - 1)))
                if op in FINALIZING and w.callbacks:
                    flushed = True
                if mons:
                    cur = mons[-1]
                    calls, vals = w.calls[since:], w.values[since:]
                    obs.append(('evaluation-monitor-length==cost-calls-since-installed@%d:%s' % (j, op), const(len(cur) == len(calls))))
                    if len(cur) == len(calls):
                        for k in range(len(calls)):
                            obs.append(('evaluation-monitor-record[%d]@%d' % (k, j), And(veq(L.vec(cur._x[k]), calls[k]), eq(L.scalar(cur._y[k]), vals[k]))))
        finally:
            stubs.ORACLE.override = None
        return obs
    return h


def collapse_solve(kind):
    """Solve() whose termination fires a collapse: the iterations performed after the collapse are still logged one record and
    one callback each"""
    def h(ctx):
        import mystic.termination as mt
        n = 2
        w = L.World(ctx, n)
        s = S.make_solver(kind, n)
        tol, window, target = 0.25, 1, 0.5
        s.SetTermination(mt.Or(mt.VTR(-1.0), mt.CollapseAt(target, tolerance=tol, generations=window)))
        s.SetObjective(w.cost)
        x0 = ctx.reals('x', n)
        ctx.assume(le(absv(x0[0] - target), tol))
        ctx.assume(gt(absv(x0[1] - target), tol + 5.0))       # coordinate 1 stays away from the band for the unrolled steps
        if kind in ('DE', 'DE2'):
            for i in range(s.nPop):
                s.population[i] = list(x0)
            stubs.ORACLE.override = S.FixedDraws()
        else:
            s.population[0] = list(x0)
        s.SetEvaluationLimits(generations=3)
        try:
            s.Solve(callback=w.callback)
        finally:
            stubs.ORACLE.override = None
        gens = s.generations
        obs = [('stopped-by-the-generation-limit', const(gens == 3)),
               ('one-callback-per-iteration-including-after-the-collapse', const(len(w.callbacks) == len(s._stepmon))),
               ('evaluations==total-cost-calls', eq(s.evaluations, len(w.calls)))]
        if w.callbacks:
            obs.append(('last-callback-got-the-final-best', veq(w.callbacks[-1], L.vec(s.bestSolution))))
        return obs
    return h


def programs(tier):
    q = tier == 'quick'
    out = []
    if q:
        sel = [('Step', 'Step'), ('Step', 'Step', 'SetPenalty', 'Step'), ('Step', 'Finalize', 'Step'), ('Step', 'Step', 'SetStrictRanges', 'Step'),
               ('Step', 'SetConstraints', 'Step'), ('Step', 'SetEvalMon', 'Step'), ('Solve1', 'Solve1'), ('Step', 'SetLimitsNew', 'Step'),
               ('Solve1', 'SetPenalty', 'Step')]
        for kind in ('NM', 'Powell', 'DE', 'DE2'):
            for p in sel:
                if kind.startswith('DE') and (p.count('Step') + 2 * p.count('Solve1') > 2 or 'SetStrictRanges' in p):
                    continue
                out.append((kind, p))
        out.append(('DE', ('Step', 'SetPenalty', 'Step')))
        out.append(('DE2', ('Step', 'SetPenalty', 'Step')))
        for kind in ('NM', 'Powell', 'DE'):
            out.append((kind, ('nomon', 'Step', 'SetEvalMon', 'Step', 'Finalize', 'Step')))
            out.append((kind, ('nomon', 'Step', 'Finalize', 'Step')))
        out.append(('NM', ('nomon', 'Step', 'Step', 'SetEvalMon', 'Step', 'SetPenalty', 'Step')))
        for kind in ('NM', 'Powell', 'DE'):
            out.append((kind, ('Solve0',)))
            out.append((kind, ('Solve0', 'Solve1')))
            out.append((kind, ('Step', 'Step', 'SetGenMon', 'Finalize')))
        out.append(('Powell', ('Step', 'Step', 'Step', 'SetGenMon', 'Finalize')))
        out.append(('Powell', ('Step', 'Step', 'Finalize', 'Step', 'Finalize')))
        # a Solve whose limit is already met (reports without iterating): after ranges were imposed mid-run, with a pending Powell record
        for kind in ('NM', 'Powell'):
            out.append((kind, ('Step', 'SetStrictRanges', 'Solve0')))
            out.append((kind, ('Step', 'Step', 'Solve0')))
    else:
        cost = {'Step': 1, 'Solve1': 2, 'Solve0': 1}
        extra = programs('quick')
        for kind in ('NM', 'Powell', 'DE', 'DE2'):
            de = kind.startswith('DE')
            Lmax = 2 if de else 3
            for n in range(1, Lmax + 1):
                for p in itertools.product(OPS, repeat=n):
                    steps = sum(cost.get(o, 0) for o in p)
                    if steps == 0 or steps > (2 if de else 3):
                        continue
                    if de and 'SetStrictRanges' in p and steps > 1:
                        continue
                    out.append((kind, p))
                    if n <= 2 and 'SetEvalMon' in p and not de:
                        out.append((kind, ('nomon',) + p + ('Finalize', 'Step')))
        seen = set(out)
        for kp in extra:
            if kp not in seen:
                out.append(kp)
    return out


def instances(tier, seed):
    q = tier == 'quick'
    out = []
    CF = ('plain', 'pen', 'cons', 'box', 'box+cons+pen', 'reducer+pen') if q else ('plain', 'pen', 'cons', 'cons-inplace', 'box', 'box+cons+pen', 'reducer+pen')
    out += c01.step_instances(tier, oblig, configs=CF, evalmon=True)
    for kind in ('fmin', 'fmin_powell', 'diffev', 'diffev2'):
        for cfg in ('plain', 'box+cons+pen'):
            for mi in ((1,) if q else (0, 1, 2)):
                out.append(Instance('wrapper/%s/%s/maxiter=%d' % (kind, cfg, mi), S.wrapper(kind, cfg, 1, mi, oblig)))
    for kind in (('NM',) if q else ('NM', 'DE')):
        out.append(Instance('collapse-solve/%s' % kind, collapse_solve(kind), qtimeout=6000))
    for kind, p in programs(tier):
        nomon = p[0] == 'nomon'
        out.append(Instance('program/%s/%s' % (kind, '-'.join(p)), program(kind, p[1:] if nomon else p, nomon=nomon)))
    return out
