"""C17 - combinators claim success only at a fixed point; couplers compose as documented.

Real code executed: constraints.and_/or_/not_ (incl. cycle detection and randomisation), coupler.inner/outer/
inner_proxy/outer_proxy/additive/additive_proxy, coupler.and_/or_/not_ (penalty combinators) over
mystic.penalty types.
Symbolic: the input vector, every member constraint (independent uninterpreted functions constrained only to
be idempotent - mystic's notion of a constraints function), all random draws of the cycle breaking,
member penalty values.  Enumerated: number of members, maxiter, dimension.
"""
import itertools
from symex.engine import Instance
from symex.values import Ctx
from symex.ob import (eq, ne, le, lt, ge, gt, And, Or, Not, Implies, Iff, const, ite, absv, maxv, minv, R,
                      sumv, isinf, veq)
from harness import solverlib as L

PROPERTY = 'C17'
LEVEL = 'model_checking'
ASSUMPTIONS = [
    'floats modelled as exact reals; NaN outside the claim',
    'member constraints are deterministic and idempotent (c(c(x)) = c(x)) and otherwise arbitrary: compatible, conflicting and cyclic '
    'combinations are all models of the uninterpreted functions',
    'random draws of the cycle breaking (randint(-1,1), random()) are solver variables within their documented ranges',
    'member penalties return arbitrary non-negative reals (penalty combinators); conditions arbitrary reals (not_)',
]
BOUNDS = {'quick': dict(members='1..2', maxiter='1..2', dim='1..2'), 'thorough': dict(members='1..3', maxiter='1..3', dim='1..2')}
BUDGET = {'quick': 1800, 'thorough': 3600}


class Member(object):
    """a member constraint: an uninterpreted function; idempotent (a projection) unless idem=False (then it may need several
    applications to reach a fixed point); inplace=True writes its result into the argument and returns the argument"""
    def __init__(self, ctx, name, dim, idem=True, inplace=False):
        self.ctx, self.uf, self.dim = ctx, ctx.ufunc(name, dim, nout=dim), dim
        self.idem, self.inplace = idem, inplace
        self.ncalls = 0

    def __call__(self, x):
        self.ncalls += 1
        xs = L.vec(x)
        y = self.uf(xs)
        if self.idem:
            self.ctx.assume(veq(self.uf(y), y))
        if self.inplace:
            x[:] = list(y)
            return x
        return list(y)

    def fixes(self, y):
        return veq(self.uf(list(y)), list(y))


def combinator(kind, n, maxiter, dim, idem=True, inplace=False, calls=1):
    def h(ctx):
        import mystic.constraints as C
        ms = [Member(ctx, 'c%d' % k, dim, idem=idem, inplace=inplace) for k in range(n)]
        flags = []

        def onexit(v):
            flags.append('exit')
            return v

        def onfail(v):
            flags.append('fail')
            return v
        if kind == 'not_':
            a = C.not_(ms[0], maxiter=maxiter, onexit=onexit, onfail=onfail)
        else:
            a = getattr(C, kind)(*ms, maxiter=maxiter, onexit=onexit, onfail=onfail)
        obs = []
        for call in range(calls):
            # (the same combined object is called again with another input: nothing may be carried over between calls)
            tag = '' if calls == 1 else '@call%d' % call
            del flags[:]
            x = ctx.reals('x' if call == 0 else 'x%d_' % call, dim)
            y = L.vec(a(list(x)))
            obs.append(('exactly-one-of-onexit-onfail-fired-once' + tag, const(flags in (['exit'], ['fail']))))
            if flags == ['exit']:
                if kind == 'and_':
                    for k, m in enumerate(ms):
                        obs.append(('success-implies-fixed-by-member[%d]%s' % (k, tag), m.fixes(y)))
                elif kind == 'or_':
                    obs.append(('success-implies-fixed-by-some-member' + tag, Or(*[m.fixes(y) for m in ms])))
                else:
                    obs.append(('success-implies-changed-by-member' + tag, Not(ms[0].fixes(y))))
        ctx.observe('flags', ''.join(flags))
        return obs
    return h


def couplers(dim):
    def h(ctx):
        import mystic.coupler as K
        x = ctx.reals('x', dim)
        f = ctx.ufunc('f', dim)
        p = ctx.ufunc('p', dim)
        c = ctx.ufunc('c', dim, nout=dim)
        g = ctx.ufunc('g', dim, nout=dim)
        F = lambda z: f(L.vec(z))
        Pn = lambda z: p(L.vec(z))
        Cn = lambda z: list(c(L.vec(z)))
        G = lambda z: list(g(L.vec(z)))
        obs = []
        obs.append(('inner: f(c(x))', eq(K.inner(Cn)(F)(list(x)), f(c(list(x))))))
        obs.append(('outer: c(g(x))', veq(K.outer(Cn)(G)(list(x)), c(g(list(x))))))
        obs.append(('additive: f(x)+p(x)', eq(K.additive(Pn)(F)(list(x)), f(list(x)) + p(list(x)))))
        obs.append(('inner_proxy: f(c(x))', eq(K.inner_proxy(Cn)(F)(list(x)), f(c(list(x))))))
        obs.append(('outer_proxy: c(g(x))', veq(K.outer_proxy(Cn)(G)(list(x)), c(g(list(x))))))
        obs.append(('additive_proxy: f(x)+p(x)', eq(K.additive_proxy(Pn)(F)(list(x)), f(list(x)) + p(list(x)))))
        # extra args go where documented
        k1, k2 = ctx.real('k1'), ctx.real('k2')
        obs.append(('inner args to inner', eq(K.inner(lambda z, a: [v + a for v in z], args=(k1,))(lambda z, b: f(z) * b)(list(x), k2),
                                              f([v + k1 for v in x]) * k2)))
        obs.append(('outer args to outer', veq(K.outer(lambda z, a: [v * a for v in z], args=(k1,))(lambda z, b: [v + b for v in z])(list(x), k2),
                                               [(v + k2) * k1 for v in x])))
        obs.append(('additive args to penalty', eq(K.additive(lambda z, a: p(z) * a, args=(k1,))(lambda z, b: f(z) + b)(list(x), k2),
                                                   f(list(x)) + k2 + p(list(x)) * k1)))
        return obs
    return h


def penalty_combinators(kind, n):
    def h(ctx):
        import mystic.coupler as K
        import mystic.penalty as mp
        vs = ctx.reals('v', n)
        x = [0.0]
        obs = []
        if kind in ('and_', 'or_'):
            for v in vs:
                ctx.assume(ge(v, 0))
            members = [(lambda z, v=v: v) for v in vs]
            pf = getattr(K, kind)(*members)
            out = pf(x)
            if kind == 'and_':
                obs.append(('and-zero-iff-all-zero', Iff(eq(out, 0), And(*[eq(v, 0) for v in vs]))))
                obs.append(('and-is-sum', eq(out, sumv(vs))))
            else:
                obs.append(('or-zero-iff-any-zero', Iff(eq(out, 0), Or(*[eq(v, 0) for v in vs]))))
                obs.append(('or-is-min', eq(out, minv(*vs))))
            obs.append(('non-negative', ge(out, 0)))
            k = ctx.real('k')
            ctx.assume(gt(k, 0))
            pf2 = getattr(K, kind)(*members, k=k, ptype=mp.quadratic_equality)
            out2 = pf2(x)
            base = sumv(vs) if kind == 'and_' else minv(*vs)
            obs.append(('ptype-and-k-applied', eq(out2, k * base * base)))
        else:
            v = vs[0]
            cond = lambda z: v
            for pt in ('linear_inequality', 'quadratic_inequality', 'linear_equality', 'quadratic_equality'):
                member = getattr(mp, pt)(cond)(lambda z: 0.0)
                pf = K.not_(member)
                out = pf(x)
                accepted_interior = lt(v, 0) if pt.endswith('_inequality') else eq(v, 0)
                obs.append(('not-penalises-exactly-the-interior/%s' % pt, Iff(gt(out, 0), accepted_interior)))
                obs.append(('not-zero-elsewhere/%s' % pt, Iff(eq(out, 0), Not(accepted_interior))))
            pf = K.not_(cond)          # a raw condition: equality reading
            obs.append(('not-raw-condition', Iff(gt(pf(x), 0), eq(v, 0))))
            # raw condition with an explicitly requested penalty type; typed member with the type restated
            for pt in ('linear_inequality', 'quadratic_inequality', 'uniform_inequality', 'linear_equality', 'quadratic_equality'):
                interior = lt(v, 0) if pt.endswith('_inequality') else eq(v, 0)
                kw = dict(k=7.0) if pt.startswith('uniform') else {}
                out = K.not_(cond, ptype=getattr(mp, pt), **kw)(x)
                obs.append(('not-raw-condition-explicit-ptype/%s' % pt, Iff(gt(out, 0), interior)))
                member = getattr(mp, pt)(cond, **kw)(lambda z: 0.0)
                out2 = K.not_(member, ptype=getattr(mp, pt), **kw)(x)
                obs.append(('not-typed-member-restated-ptype/%s' % pt, Iff(gt(out2, 0), interior)))
        return obs
    return h


def instances(tier, seed):
    q = tier == 'quick'
    out = []
    for kind in ('and_', 'or_'):
        for n in ((1, 2) if q else (1, 2, 3)):
            for mi in ((1, 2) if q else (1, 2, 3)):
                for dim in (1, 2):
                    if n == 3 and (mi == 3 or dim == 2):
                        continue
                    out.append(Instance('constraints.%s/members=%d/maxiter=%d/dim=%d' % (kind, n, mi, dim), combinator(kind, n, mi, dim)))
    for mi in ((1, 2) if q else (1, 2, 3)):
        for dim in (1, 2):
            out.append(Instance('constraints.not_/maxiter=%d/dim=%d' % (mi, dim), combinator('not_', 1, mi, dim)))
    # members written in the in-place style, the combined object called twice, iteration caps large enough for the cycling phase
    # to run several rounds; for or_ also members that are NOT projections (need several applications to settle).
    # (and_ decides success from n consecutive equal iterates, which presumes members that fix their own output: for members
    # that are not idempotent the property's and_ clause is outside this claim - see DESIGN.md C17.)
    for n, mi in (((2, 2),) if q else ((1, 3), (2, 2), (2, 3))):
        out.append(Instance('constraints.and_/members=%d/maxiter=%d/dim=1/projection-inplace' % (n, mi), combinator('and_', n, mi, 1, inplace=True)))
    for n, mi in (((2, 4),) if q else ((1, 3), (2, 4), (2, 5), (3, 3))):
        for idem, inplace in ((False, False), (False, True), (True, True)):
            tag = '%s%s' % ('projection' if idem else 'not-idempotent', '-inplace' if inplace else '')
            out.append(Instance('constraints.or_/members=%d/maxiter=%d/dim=1/%s' % (n, mi, tag), combinator('or_', n, mi, 1, idem=idem, inplace=inplace)))
    out.append(Instance('constraints.and_/members=2/maxiter=2/dim=1/called-twice', combinator('and_', 2, 2, 1, calls=2)))
    out.append(Instance('constraints.or_/members=2/maxiter=3/dim=1/called-twice/not-idempotent', combinator('or_', 2, 3, 1, idem=False, calls=2)))
    out.append(Instance('constraints.not_/maxiter=3/dim=1/not-idempotent', combinator('not_', 1, 3, 1, idem=False)))
    for dim in (1, 2):
        out.append(Instance('couplers/dim=%d' % dim, couplers(dim)))
    for kind in ('and_', 'or_'):
        for n in ((1, 2, 3) if q else (1, 2, 3, 4)):
            out.append(Instance('penalty.%s/members=%d' % (kind, n), penalty_combinators(kind, n)))
    out.append(Instance('penalty.not_', penalty_combinators('not_', 1)))
    return out
