"""C06 - a checkpointed solver resumes exactly as if it had never been interrupted.

Real code executed: AbstractSolver.SaveSolver/__save_state/SetSaveFrequency/__load_state/__copy__/__deepcopy__,
solvers.LoadSolver, dill.dump/load/copy of the whole solver (symbolic scalars travel through the pickle as registry keys),
then the real Step of NM / Powell / DE / DE2 on the original and on the restored solver under THE SAME random draws
(the oracle records the draws of one run and replays them for the other) and the same uninterpreted cost.
Obligations: equal populations, energies, best, counters, monitor contents, Powell direction set after the
continued step; stepping one solver leaves the other's state untouched; each keeps counting its own evaluations.
"""
import copy
import os
import tempfile
from symex.engine import Instance
from symex.values import Ctx
from symex import stubs
from symex.ob import (eq, ne, le, lt, ge, gt, And, Or, Not, Implies, Iff, const, ite, absv, maxv, minv, R,
                      sumv, isinf, veq)
from harness import solverlib as L
from harness import steps as S

PROPERTY = 'C06'
LEVEL = 'model_checking'
ASSUMPTIONS = [
    'floats modelled as exact reals; byte-level equality of restart files and file-system faults are outside the claim',
    '"the same random-generator state": the draws of the original continuation are recorded and replayed for the restored solver',
    'cost / penalty / constraints are module-level functions (pickled by reference) delegating to uninterpreted functions; the cost is deterministic',
    'interruption after generation k in {0,1,2}; one continued step (every post-state is again a legal interruption point)',
    'Powell: Brent replaced by its contract, step lengths recorded and replayed like random draws',
]
BOUNDS = {'quick': dict(k='0..2', solvers='NM dim<=2, Powell dim 1, DE/DE2 NP=4 dim 1', paths='save file, SetSaveFrequency dump, dill.copy, deepcopy'),
          'thorough': dict(k='0..3', solvers='NM dim<=2, Powell dim<=2, DE/DE2 NP=4 dim<=2', paths='save file, SetSaveFrequency dump, dill.copy, deepcopy')}
BUDGET = {'quick': 1800, 'thorough': 5400}

CURRENT = {}


def COST(x):
    w = CURRENT['w']
    CURRENT['owner_calls'].setdefault(CURRENT['owner'], []).append(L.vec(x))
    return w.cost(x)


def PENALTY(x):
    return CURRENT['w'].penalty(x)


def CONSTRAINT(x):
    return CURRENT['w'].constraint(x)


class AlphaTape(object):
    def __init__(self):
        self.tape, self.replay = [], None


def install_brent(ctx, at):
    import mystic.scipy_optimize as so

    def brent(func, args=(), brack=None, tol=1.48e-8, full_output=0, maxiter=500):
        if at.replay is not None:
            a = at.replay.pop(0)
        elif Ctx.mode == 'sym':
            from symex.values import SReal
            a = SReal(ctx.fresh('alpha'))
            at.tape.append(a)
        else:
            a = float(ctx.fresh_value('alpha', 0.0))
            at.tape.append(a)
        f0 = L.scalar(func(0.0))
        fa = L.scalar(func(a))
        ctx.assume(le(fa, f0) if not (isinf(fa) and isinf(f0)) else const(True))
        return a, fa, 1, 2
    so.brent = brent


def full_state(s):
    pop, en, b, be = L.state_of(s)
    st = dict(pop=pop, en=en, best=b, bestE=be, evals=s.evaluations, gens=s.generations,
              step_x=[L.vec(v) for v in s._stepmon._x], step_y=[L.scalar(v) for v in s._stepmon._y],
              eval_x=[L.vec(v) for v in s._evalmon._x], eval_y=[L.scalar(v) for v in s._evalmon._y])
    if hasattr(s, '_direc') and s._direc is not None:
        st['direc'] = [L.vec(d) for d in s._direc]
        x1, fx, bigind, delta = s._PowellDirectionalSolver__internals
        st['internals'] = (L.vec(x1), L.scalar(fx), int(bigind), L.scalar(delta))
        st['ehist'] = [L.scalar(e) for e in s.energy_history]
    return st


def same_state(a, b, tag):
    def seq_eq(x, y):
        if len(x) != len(y):
            return const(False)
        out = []
        for u, v in zip(x, y):
            if isinstance(u, list):
                out.append(veq(u, v))
            elif isinf(u) or isinf(v):
                out.append(const(isinf(u) and isinf(v)))
            else:
                out.append(eq(u, v))
        return And(*out) if out else const(True)
    obs = [('%s: population' % tag, seq_eq(a['pop'], b['pop'])), ('%s: energies' % tag, seq_eq(a['en'], b['en'])),
           ('%s: best solution' % tag, veq(a['best'], b['best'])), ('%s: best energy' % tag, seq_eq([a['bestE']], [b['bestE']])),
           ('%s: evaluation counter' % tag, eq(a['evals'], b['evals'])), ('%s: generation counter' % tag, const(a['gens'] == b['gens'])),
           ('%s: step monitor' % tag, And(seq_eq(a['step_x'], b['step_x']), seq_eq(a['step_y'], b['step_y']))),
           ('%s: evaluation monitor' % tag, And(seq_eq(a['eval_x'], b['eval_x']), seq_eq(a['eval_y'], b['eval_y'])))]
    if 'direc' in a or 'direc' in b:
        if 'direc' in a and 'direc' in b:
            obs.append(('%s: direction set' % tag, seq_eq(a['direc'], b['direc'])))
            ia, ib = a['internals'], b['internals']
            obs.append(('%s: powell internals' % tag, And(veq(ia[0], ib[0]), seq_eq([ia[1]], [ib[1]]), const(ia[2] == ib[2]), seq_eq([ia[3]], [ib[3]]))))
            obs.append(('%s: energy history' % tag, seq_eq(a['ehist'], b['ehist'])))
        else:
            obs.append(('%s: direction set' % tag, const(False)))
    return obs


def build(ctx, kind, dim, cfg):
    from mystic.monitors import Monitor
    w = L.World(ctx, dim, **S.CONFIGS[cfg])
    CURRENT.update(w=w, owner='orig', owner_calls={})
    s = S.make_solver(kind, dim)
    s.SetEvaluationLimits(L.BIG, L.BIG)
    s.SetTermination(L.never())
    if w.lo is not None:
        s.SetStrictRanges(L.arr(w.lo), L.arr(w.hi))
    if w.c is not None:
        s.SetConstraints(CONSTRAINT)
    if w.p is not None:
        s.SetPenalty(PENALTY)
    s.SetEvaluationMonitor(Monitor())
    s.SetObjective(COST)
    x0 = ctx.reals('x', dim)
    if kind in ('DE', 'DE2'):
        for i in range(s.nPop):
            s.population[i] = [x0[j] + i for j in range(dim)]
    else:
        s.population[0] = list(x0)
    return w, s


def run_step(s, owner, kind, record=None, replay=None, at=None):
    CURRENT['owner'] = owner
    stubs.ORACLE.tape = record
    stubs.ORACLE.replay = replay
    try:
        if kind in ('DE', 'DE2'):
            s.Step(strategy=S.focus_strategy('Best1Bin', -1))      # fixed partner / crossover draws for every candidate (recorded and replayed)
        else:
            s.Step()
    finally:
        stubs.ORACLE.tape = None
        stubs.ORACLE.replay = None


def resume(kind, dim, cfg, k, path):
    """interrupt after generation k, restore via `path`, continue both: identical; then independence"""
    def h(ctx):
        from mystic.solvers import LoadSolver
        import dill
        at = AlphaTape()
        if kind == 'Powell':
            install_brent(ctx, at)
        w, s = build(ctx, kind, dim, cfg)
        d = tempfile.mkdtemp(prefix='verif-c06-')
        fn = os.path.join(d, 'ck.pkl')
        try:
            if path == 'frequency':
                s.SetSaveFrequency(1, fn)
            stubs.ORACLE.override = S.FixedDraws() if kind in ('DE', 'DE2') else None
            for g in range(k + 1):
                run_step(s, 'orig', kind)
            stubs.ORACLE.override = None
            if path == 'save':
                s.SaveSolver(fn)
                r = LoadSolver(fn)
            elif path == 'frequency':
                r = LoadSolver(fn)
                s.SetSaveFrequency(None)
                r.SetSaveFrequency(None)
            elif path == 'dill':
                r = dill.copy(s)
            else:
                r = copy.deepcopy(s)
        finally:
            import shutil
            shutil.rmtree(d, ignore_errors=True)
        obs = []
        obs += same_state(full_state(s), full_state(r), 'restored == saved')
        snap_r = full_state(r)
        # continue the original, recording the draws ...
        tape = []
        at.tape = []
        run_step(s, 'orig', kind, record=tape)
        after_s = full_state(s)
        # ... the restored solver was not touched by that
        obs += same_state(snap_r, full_state(r), 'restored untouched while the original advanced')
        # ... and continues identically under the same draws
        at.replay = list(at.tape)
        try:
            run_step(r, 'rest', kind, replay=list(tape))
        except (TypeError, IndexError, AttributeError) as e:
            # a restored solver that cannot take a step at all (a dump taken in the middle of an iteration)
            at.replay = None
            return obs + [('restored solver can continue', const(False))]
        at.replay = None
        obs.append(('restored solver can continue', const(True)))
        after_r = full_state(r)
        obs += same_state(after_s, after_r, 'continued run == uninterrupted run')
        obs.append(('original untouched while the restored advanced', And(*[o for _, o in same_state(after_s, full_state(s), 'x')])))
        co, cr = CURRENT['owner_calls'].get('orig', []), CURRENT['owner_calls'].get('rest', [])
        obs.append(('restored solver counts its own evaluations', eq(after_r['evals'] - snap_r['evals'], len(cr))))
        ctx.observe('bestEnergy', after_r['bestE'])
        return obs
    return h


def instances(tier, seed):
    q = tier == 'quick'
    out = []
    PATHS = ('save', 'frequency', 'dill', 'deepcopy')
    if q:
        grid = [('NM', 1, 'plain', k, p) for k in (0, 1, 2) for p in PATHS]
        grid += [('NM', 1, 'box+cons+pen', 1, p) for p in ('save', 'deepcopy')]
        grid += [('NM', 2, 'plain', 1, p) for p in ('save', 'deepcopy')]
        grid += [('Powell', 1, 'plain', k, p) for k in (1, 2) for p in ('save', 'deepcopy')]
        grid += [('Powell', 1, 'cons', 1, 'save')]
        grid += [('Powell', 1, 'plain', k, 'frequency') for k in (0, 1, 2)]
        grid += [(kind, 1, 'plain', 0, p) for kind in ('DE', 'DE2') for p in ('save', 'deepcopy')]
        grid += [('DE', 1, 'box+cons+pen', 0, 'save')]
    else:
        grid = []
        for kind, dims in (('NM', (1, 2)), ('Powell', (1,)), ('DE', (1,)), ('DE2', (1,))):
            for dim in dims:
                for cfg in ('plain', 'pen', 'cons', 'box', 'box+cons+pen'):
                    for k in (0, 1, 2):
                        for path in PATHS:
                            if dim == 2 and (cfg != 'plain' or k != 1):
                                continue
                            if kind.startswith('DE') and (k == 2 or (k == 1 and cfg != 'plain')):
                                continue
                            if cfg == 'box+cons+pen' and k == 2 and path not in (('save', 'frequency') if kind == 'Powell' else ('save', 'deepcopy')):
                                continue        # (the most expensive cells: two restore paths each)
                            grid.append((kind, dim, cfg, k, path))
    for kind, dim, cfg, k, path in grid:
        out.append(Instance('resume/%s/dim=%d/%s/after-gen=%d/%s' % (kind, dim, cfg, k, path), resume(kind, dim, cfg, k, path), qtimeout=6000))
    return out
