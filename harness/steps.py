"""Step scenario builders shared by C01-C04 (and reused by C06-C08).

Each builder returns a harness `h(ctx)`: it constructs the World and a real solver in an arbitrary
invariant-satisfying state, performs the real Step(s), and hands a record `Rec` to the property's own
`oblig(rec) -> [(name, obligation)]`.
"""
from symex.values import Ctx
from symex import stubs
from symex.ob import (eq, ne, le, lt, ge, gt, And, Or, Not, Implies, Iff, const, ite, absv, maxv, minv, R,
                      sumv, isinf, veq)
from harness import solverlib as L

CONFIGS = {
    'plain': dict(),
    'pen': dict(pen=True),
    'cons': dict(cons='pure'),
    'cons-inplace': dict(cons='inplace'),
    'box': dict(box=True),
    'box+cons': dict(box=True, cons='pure'),
    'box+cons+pen': dict(box=True, cons='pure', pen=True),
    'box+cons-inplace+pen': dict(box=True, cons='inplace', pen=True),
    'reducer+pen': dict(ncost=2, pen=True),
    # constraints that may push points OUT of the box (C02: still never evaluated outside)
    'box+wildcons': dict(box=True, cons='pure', boxkeep=False),
}

STRATEGIES = ('Best1Exp', 'Best1Bin', 'Rand1Exp', 'RandToBest1Exp', 'Best2Exp', 'Rand2Exp', 'Rand1Bin', 'RandToBest1Bin',
              'Best2Bin', 'Rand2Bin')


class Rec(object):
    def __init__(self, kind, ctx, w, s, **kw):
        self.kind, self.ctx, self.w, self.s = kind, ctx, w, s
        self.__dict__.update(kw)


class FixedDraws(object):
    def random(self):
        return 0.95

    def randrange(self, n):
        return 0


def focus_strategy(name, focus):
    import mystic.strategy as st
    real = getattr(st, name)

    def strategy(inst, candidate):
        stubs.ORACLE.override = None if (focus is None or candidate == focus) else FixedDraws()
        try:
            return real(inst, candidate)
        finally:
            stubs.ORACLE.override = None
    strategy.__name__ = name
    return strategy


def de_class(two):
    import mystic.differential_evolution as de
    return de.DifferentialEvolutionSolver2 if two else de.DifferentialEvolutionSolver


def nm_solver(dim):
    import mystic.scipy_optimize as so
    return so.NelderMeadSimplexSolver(dim)


def powell_solver(dim):
    import mystic.scipy_optimize as so
    return so.PowellDirectionalSolver(dim)


def snapshot(s, w):
    pop, en, b, be = L.state_of(s)
    return dict(pop=pop, en=en, best=b, bestE=be, ncalls=len(w.calls), evals=s.evaluations, gens=s.generations,
                nstep=len(s._stepmon), ncb=len(w.callbacks))


# ------------------------------------------------------------------------------------- DE
def de_install(ctx, w, s, NP, decorate=True, inside=True):
    """install an arbitrary invariant DE state of generation 1 (see solverlib.de_prestate)"""
    dim = w.dim
    P = [ctx.reals('P%d_' % i, dim) for i in range(NP)]
    if inside:
        for p in P:
            ctx.assume(w.inside(p))
            ctx.assume(w.feasible(p))
    boxed = w.lo is not None
    s.population = [L.arr(p) if boxed else list(p) for p in P]
    if decorate:
        s._decorate_objective(w.cost)
    E = [w.raw(p) for p in P]
    jb = [ctx.bool('best_is_%d' % i) for i in range(NP)]
    ctx.assume(Or(*jb))
    best, bestE = ctx.reals('B', dim), ctx.real('BE')
    for i in range(NP):
        ctx.assume(le(bestE, E[i]))
        ctx.assume(Implies(jb[i], And(veq(best, P[i]), eq(bestE, E[i]))))
    s.popEnergy = list(E)
    s.bestSolution = L.arr(best)
    s.bestEnergy = bestE
    L.log_generations(s, 1, best, bestE)
    return dict(pop=P, en=E, best=list(best), bestE=bestE)


def de_step(two, strat, cfg, dim, NP, focus, oblig, evalmon=False):
    def h(ctx):
        w = L.World(ctx, dim, **CONFIGS[cfg])
        s = de_class(two)(dim, NP)
        L.configure(s, w)
        em = None
        if evalmon:
            from mystic.monitors import Monitor
            em = Monitor()
            s.SetEvaluationMonitor(em)
        pre = de_install(ctx, w, s, NP)
        pre.update(snapshot(s, w), pop=pre['pop'], en=pre['en'], best=pre['best'], bestE=pre['bestE'])
        msg = s.Step(strategy=focus_strategy(strat, focus), callback=w.callback)
        post = snapshot(s, w)
        ctx.observe('bestEnergy', post['bestE'])
        ctx.observe('best', post['best'])
        return oblig(Rec('de-step', ctx, w, s, pre=pre, post=post, msg=msg, NP=NP, evalmon=em, two=two))
    return h


def de_gen0(two, cfg, dim, NP, oblig, evalmon=False):
    """generation 0 from an arbitrary initial population (public API only)"""
    def h(ctx):
        w = L.World(ctx, dim, **CONFIGS[cfg])
        s = de_class(two)(dim, NP)
        L.configure(s, w)
        em = None
        if evalmon:
            from mystic.monitors import Monitor
            em = Monitor()
            s.SetEvaluationMonitor(em)
        P = [ctx.reals('P%d_' % i, dim) for i in range(NP)]
        for i in range(NP):
            s.population[i] = list(P[i])
        pre = snapshot(s, w)
        pre['pop'] = P
        msg = s.Step(callback=w.callback)
        post = snapshot(s, w)
        ctx.observe('bestEnergy', post['bestE'])
        return oblig(Rec('de-gen0', ctx, w, s, pre=pre, post=post, msg=msg, NP=NP, evalmon=em, two=two))
    return h


# ------------------------------------------------------------------------------------- Nelder-Mead
def nm_install(ctx, w, s):
    dim = w.dim
    V = [ctx.reals('V%d_' % i, dim) for i in range(dim + 1)]
    CV = [w.C(v) for v in V]
    for cv in CV:
        ctx.assume(w.inside(cv))
    ctx.assume(w.feasible(V[0]))
    ctx.assume(w.inside(V[0]))
    s.population[0] = L.arr(V[0])
    s._decorate_objective(w.cost)
    E = [w.raw(cv) for cv in CV]
    for i in range(dim):
        ctx.assume(le(E[i], E[i + 1]))
    s.population = L.mat(V)
    s.popEnergy = L.arr(E)
    L.log_generations(s, 1, V[0], E[0])
    return dict(pop=V, cpop=CV, en=E, best=list(V[0]), bestE=E[0])


def nm_step(cfg, dim, oblig, adaptive=False, evalmon=False, restart=False):
    def h(ctx):
        w = L.World(ctx, dim, **CONFIGS[cfg])
        s = nm_solver(dim)
        L.configure(s, w)
        em = None
        if evalmon:
            from mystic.monitors import Monitor
            em = Monitor()
            s.SetEvaluationMonitor(em)
        pre0 = nm_install(ctx, w, s)
        pre = snapshot(s, w)
        pre.update(pre0)
        if restart:
            s.Finalize()          # a stopped run that is continued: the next Step re-decorates the objective
        msg = s.Step(callback=w.callback, adaptive=adaptive)
        post = snapshot(s, w)
        ctx.observe('bestEnergy', post['bestE'])
        ctx.observe('best', post['best'])
        return oblig(Rec('nm-step', ctx, w, s, pre=pre, post=post, msg=msg, evalmon=em, restart=restart))
    return h


def nm_start(cfg, dim, gens, oblig, evalmon=False):
    """generation 0 (and 1: simplex construction) from an arbitrary initial guess, public API only"""
    def h(ctx):
        w = L.World(ctx, dim, **CONFIGS[cfg])
        s = nm_solver(dim)
        L.configure(s, w)
        em = None
        if evalmon:
            from mystic.monitors import Monitor
            em = Monitor()
            s.SetEvaluationMonitor(em)
        x0 = ctx.reals('x', dim)
        s.population[0] = list(x0)
        obs = []
        pre = snapshot(s, w)
        pre['x0'] = x0
        for g in range(gens + 1):
            before = snapshot(s, w)
            msg = s.Step(callback=w.callback)
            post = snapshot(s, w)
            obs += oblig(Rec('nm-start', ctx, w, s, pre=pre, before=before, post=post, msg=msg, g=g, evalmon=em))
        ctx.observe('bestEnergy', post['bestE'])
        return obs
    return h


# ------------------------------------------------------------------------------------- Powell
def install_brent_contract(ctx):
    """replace Brent by its contract: evaluates func(0) and func(alpha) for an arbitrary alpha with
    func(alpha) <= func(0); returns (alpha, func(alpha), 1, 2)"""
    import mystic.scipy_optimize as so

    def brent(func, args=(), brack=None, tol=1.48e-8, full_output=0, maxiter=500):
        if Ctx.mode == 'sym':
            from symex.values import SReal
            a = SReal(ctx.fresh('alpha'))
        else:
            a = float(ctx.fresh_value('alpha', 0.0))
        f0 = L.scalar(func(0.0))
        fa = L.scalar(func(a))
        ctx.assume(le(fa, f0) if not (isinf(fa) and isinf(f0)) else const(True))
        return a, fa, 1, 2
    so.brent = brent


def powell_steps(cfg, dim, steps, oblig, evalmon=False):
    def h(ctx):
        install_brent_contract(ctx)
        w = L.World(ctx, dim, **CONFIGS[cfg])
        s = powell_solver(dim)
        L.configure(s, w)
        em = None
        if evalmon:
            from mystic.monitors import Monitor
            em = Monitor()
            s.SetEvaluationMonitor(em)
        x0 = ctx.reals('x', dim)
        s.population[0] = list(x0)
        obs = []
        pre = snapshot(s, w)
        pre['x0'] = x0
        for g in range(steps):
            before = snapshot(s, w)
            msg = s.Step(callback=w.callback)
            post = snapshot(s, w)
            obs += oblig(Rec('powell', ctx, w, s, pre=pre, before=before, post=post, msg=msg, g=g, evalmon=em))
        ctx.observe('bestEnergy', post['bestE'])
        return obs
    return h


# ------------------------------------------------------------------------------------- decoration stack
def make_solver(kind, dim):
    if kind == 'NM':
        return nm_solver(dim)
    if kind == 'Powell':
        return powell_solver(dim)
    return de_class(kind == 'DE2')(dim, 4)


def decoration(kind, cfg, dim, oblig):
    def h(ctx):
        w = L.World(ctx, dim, **CONFIGS[cfg])
        s = make_solver(kind, dim)
        L.configure(s, w)
        dec = s._decorate_objective(w.cost)
        n0 = len(w.calls)
        x = ctx.reals('x', dim)
        arg = L.arr(x)
        out = L.scalar(dec(arg))
        target = w.C(x) if kind in ('NM', 'Powell') else list(x)
        return oblig(Rec('decoration', ctx, w, s, solver=kind, x=x, arg=arg, out=out, target=target, n0=n0))
    return h


# ------------------------------------------------------------------------------------- wrappers
def wrapper(kind, cfg, dim, maxiter, oblig, maxfun=None):
    def h(ctx):
        import mystic.scipy_optimize as so
        import mystic.differential_evolution as de
        w = L.World(ctx, dim, **CONFIGS[cfg])
        x0 = ctx.reals('x', dim)
        kw = dict(full_output=1, disp=0, maxiter=maxiter, maxfun=maxfun)
        if w.p is not None:
            kw['penalty'] = w.penalty
        if w.c is not None:
            kw['constraints'] = w.constraint
        if w.lo is not None:
            kw['bounds'] = list(zip(w.lo, w.hi))
        if kind == 'fmin':
            out = so.fmin(w.cost, list(x0), **kw)
        elif kind == 'fmin_powell':
            install_brent_contract(ctx)
            out = so.fmin_powell(w.cost, list(x0), **kw)
        else:
            stubs.ORACLE.override = FixedDraws()
            try:
                out = getattr(de, kind)(w.cost, list(x0), npop=4, **kw)
            finally:
                stubs.ORACLE.override = None
        ctx.observe('fopt', L.scalar(out[1]))
        return oblig(Rec('wrapper', ctx, w, None, wrapper=kind, out=out, x0=x0, maxiter=maxiter, maxfun=maxfun))
    return h


# ------------------------------------------------------------------------------------- tight / clip range modes
BOX_POOL = [([0.0], [1.0]), ([-2.5], [-2.5]), ([-1e20], [3.0]),
            ([0.0, -1.0], [1.0, 4.0]), ([1.0, 2.0], [1.0, 1e20]), ([-3.0, 0.5], [-1.0, 0.5]),
            ([1 / 3.], [0.1 + 0.2 + 1]), ([-1e6 / 7], [1e6 / 7])]      # bounds that are not short decimals (the symbolic path prints 15 digits)


def mode_step(kind, mode, lo, hi, cons, oblig, steps=2):
    """real steps of a solver configured with tight/clip ranges built from a CONCRETE box (the symbolic pipeline needs
    text); the initial point, the cost and the extra constraints stay symbolic"""
    dim = len(lo)

    def h(ctx):
        w = L.World(ctx, dim, box=False, cons=cons)
        s = make_solver(kind, dim)
        s.SetEvaluationLimits(L.BIG, L.BIG)
        s.SetTermination(L.never())
        kw = dict(tight=True) if mode == 'tight' else (dict(tight=False) if mode == 'tight=False' else dict(clip=(mode == 'clip=True')))
        stubs.ORACLE.override = FixedDraws()
        try:
            s.SetStrictRanges(list(lo), list(hi), **kw)
        except ZeroDivisionError:
            return [('configuration-rejected-before-any-evaluation', const(mode == 'tight' and list(lo) == list(hi) and not w.calls))]
        finally:
            stubs.ORACLE.override = None
        w.lo, w.hi = [R(v) for v in lo], [R(v) for v in hi]
        # bounds that are not short decimals reach the tight / clip pipeline as 15-digit text, i.e. shifted by up to ~1e-16 relative:
        # "constraints compatible with the strict ranges" is then assumed with a 1e-9 relative margin on those coordinates
        exact = [(float('%.15g' % lo[i]) == lo[i] and float('%.15g' % hi[i]) == hi[i]) or lo[i] == hi[i] for i in range(dim)]
        w.margin = None if all(exact) else [R(0.0 if exact[i] else 1e-9 * (1.0 + max(abs(lo[i]), abs(hi[i])))) for i in range(dim)]
        if cons:
            s.SetConstraints(w.constraint)
        s.SetObjective(w.cost)
        if kind == 'Powell':
            install_brent_contract(ctx)
        x0 = ctx.reals('x', dim)
        if kind in ('DE', 'DE2'):
            for i in range(s.nPop):
                s.population[i] = list(x0) if i == 0 else [R(lo[j]) + R(0) for j in range(dim)]
            stubs.ORACLE.override = FixedDraws() if mode != 'clip=False' else None
        else:
            s.population[0] = list(x0)
        obs = []
        pre = snapshot(s, w)
        pre['x0'] = x0
        try:
            for g in range(steps):
                before = snapshot(s, w)
                msg = s.Step(callback=w.callback)
                post = snapshot(s, w)
                obs += oblig(Rec('mode-step', ctx, w, s, pre=pre, before=before, post=post, msg=msg, g=g, solver=kind, mode=mode, evalmon=None))
        finally:
            stubs.ORACLE.override = None
        obs.append(('ran', const(True)))
        return obs
    return h
