"""C03 - hard constraints hold at every evaluation and for the reported result.

Real code executed: the step scenarios of C01 (DE/DE2/NM/Powell Step, decoration, wrappers) with a constraints
function installed from the start (pure and in-place variants), plus installation mid-run (SetConstraints
between steps on an arbitrary state whose members need not satisfy the constraints), plus symbolic-generated
constraints (generate_constraint) plugged into real steps.
Obligation at EVERY logged call of the raw cost: c(x) == x.  After each step: c(best) == best and
bestEnergy == cost(best)+penalty(best).  Every post-state is a legal stopping point ("wherever the run is stopped").
"""
from symex.engine import Instance
from symex.values import Ctx
from symex import stubs
from symex.ob import (eq, ne, le, lt, ge, gt, And, Or, Not, Implies, Iff, const, ite, absv, maxv, minv, R,
                      sumv, isinf, veq)
from harness import solverlib as L
from harness import steps as S
from harness import c01

PROPERTY = 'C03'
LEVEL = 'model_checking'
ASSUMPTIONS = [
    'floats modelled as exact reals; NaN outside the claim',
    'constraints function: an uninterpreted function constrained only to be idempotent and to map the strict box into itself '
    '(subsumes pins, clamps, integer rounding, affine ties); pure and in-place calling conventions both run',
    'range modes: default (tight=None); the randomising clip=False mode is excluded by the property',
    'DE: one focus candidate per instance has solver-chosen random draws (all positions are instances); Powell: Brent replaced by its contract',
]
BOUNDS = {'quick': dict(dim='1..2', NP=4, steps=1), 'thorough': dict(dim='1..3', NP='4..6', steps=1)}
BUDGET = {'quick': 1800, 'thorough': 5400}


def calls_feasible(w, start=0):
    return [('evaluated-point-satisfies-constraints[call %d]' % k, w.feasible(c)) for k, c in enumerate(w.calls[start:])]


def oblig(r):
    w, k = r.w, r.kind
    obs = calls_feasible(w)
    if k in ('de-step', 'de-gen0', 'nm-step', 'nm-start', 'powell'):
        post = r.post
        if not isinf(post['bestE']):
            obs.append(('reported-solution-satisfies-constraints', w.feasible(post['best'])))
            obs.append(('reported-energy-is-energy-of-constrained-point', w.energy_is(post['bestE'], post['best'])))
            sh = r.s.solution_history
            if len(sh):
                last = L.vec(sh[-1])
                if k != 'powell':      # Powell logs its step monitor one generation late (Finalize flushes it)
                    obs.append(('logged-solution-satisfies-constraints', w.feasible(last)))
    elif k == 'decoration':
        pass
    elif k == 'wrapper':
        fopt = L.scalar(r.out[1])
        if not isinf(fopt):
            xopt = L.vec(r.out[0])
            obs.append(('xopt-satisfies-constraints', w.feasible(xopt)))
            obs.append(('fopt-is-energy-of-xopt', w.energy_is(fopt, xopt)))
    if not obs:
        obs.append(('no-evaluation', const(True)))
    return obs


def midrun(kind, dim, mode, free=0, via='SetConstraints'):
    """arbitrary pre-state (members need not satisfy c), SetConstraints (or the constraints= keyword of Step), then Step: every
    evaluation satisfies c"""
    def h(ctx):
        w = L.World(ctx, dim, box=False, cons=None)
        if kind in ('DE', 'DE2'):
            NP = 4
            s = S.de_class(kind == 'DE2')(dim, NP)
            L.configure(s, w)
            P = [ctx.reals('P%d_' % i, dim) for i in range(NP)]
            E = ctx.reals('E', NP)
            s.population = [list(p) for p in P]
            s._decorate_objective(w.cost)
            ib = ctx.choose(NP, 'bestidx')
            for i in range(NP):
                ctx.assume(le(E[ib], E[i]))
            s.popEnergy = list(E)
            s.bestSolution = L.arr(P[ib])
            s.bestEnergy = E[ib]
            L.log_generations(s, 1, P[ib], E[ib])
            kw = dict(strategy=S.focus_strategy('Best1Bin', free))
        elif kind == 'NM':
            s = S.nm_solver(dim)
            L.configure(s, w)
            V = [ctx.reals('V%d_' % i, dim) for i in range(dim + 1)]
            E = ctx.reals('E', dim + 1)
            for i in range(dim):
                ctx.assume(le(E[i], E[i + 1]))
            s._decorate_objective(w.cost)
            s.population = L.mat(V)
            s.popEnergy = L.arr(E)
            L.log_generations(s, 1, V[0], E[0])
            kw = {}
        else:
            S.install_brent_contract(ctx)
            s = S.powell_solver(dim)
            L.configure(s, w)
            s.population[0] = list(ctx.reals('x', dim))
            s.Step()
            s.Step()
            kw = {}
        n0 = len(w.calls)
        w.c = ctx.ufunc('c', dim, nout=dim)
        w.cons = mode
        if via == 'SetConstraints':
            s.SetConstraints(w.constraint)
            s.Step(**kw)
        else:
            s.Step(constraints=w.constraint, **kw)        # documented: installed for this and the following iterations
        obs = calls_feasible(w, n0)
        obs.append(('ran', const(True)))
        return obs
    return h


# ---- concrete constraint products of mystic's own generators, plugged into real steps (points symbolic)
def generated(kind, text, dim):
    def h(ctx):
        import mystic.symbolic as ms
        stubs.ORACLE.override = S.FixedDraws()
        try:
            cf = ms.generate_constraint(ms.generate_solvers(text, nvars=dim))
        finally:
            stubs.ORACLE.override = None
        w = L.World(ctx, dim)
        s = S.make_solver(kind, dim)
        L.configure(s, w)
        s.SetConstraints(cf)
        if kind == 'Powell':
            S.install_brent_contract(ctx)
        x0 = ctx.reals('x', dim)
        if kind in ('DE', 'DE2'):
            for i in range(s.nPop):
                s.population[i] = [x0[j] + i for j in range(dim)]
            stubs.ORACLE.override = S.FixedDraws()
        else:
            s.population[0] = list(x0)
        try:
            s.Step()
            s.Step()
        finally:
            stubs.ORACLE.override = None
        obs = []
        for k, c in enumerate(w.calls):
            y = L.vec(cf(list(c)))
            obs.append(('evaluated-point-fixed-by-generated-constraint[call %d]' % k, veq(y, c)))
        b = L.vec(s.bestSolution)
        obs.append(('reported-solution-fixed-by-generated-constraint', veq(L.vec(cf(list(b))), b)))
        obs.append(('reported-energy-is-cost-at-solution', eq(L.scalar(s.bestEnergy), w.raw(b))))
        return obs
    return h


GENERATED = [('x0 = 2.0', 2), ('x0 >= 1.0', 1), ('x1 = x0 + 1.0', 2), ('x0 <= 3.0\nx1 >= x0', 2)]


def instances(tier, seed):
    q = tier == 'quick'
    out = []
    CF = ('cons', 'cons-inplace', 'box+cons', 'box+cons+pen') if q else ('cons', 'cons-inplace', 'box+cons', 'box+cons+pen', 'box+cons-inplace+pen')
    for kind in ('NM', 'Powell'):       # (DE applies the constraints in its step, not in the decorated cost)
        for cfg in CF:
            out.append(Instance('decoration/%s/%s/dim=2' % (kind, cfg), S.decoration(kind, cfg, 2, oblig)))
    out += c01.step_instances(tier, oblig, configs=CF)
    for kind in ('DE', 'DE2', 'NM', 'Powell'):
        for mode in ('pure', 'inplace'):
            for free in (range(4) if (kind.startswith('DE') and not q) else (0,)):
                if q and kind.startswith('DE') and (kind, mode) not in (('DE', 'pure'), ('DE2', 'inplace')):
                    continue
                out.append(Instance('midrun-constraints/%s/%s/dim=1/free=%d' % (kind, mode, free), midrun(kind, 1, mode, free)))
    for kind in ('NM', 'Powell', 'DE'):
        out.append(Instance('midrun-constraints/%s/pure/dim=1/free=0/via-Step-keyword' % kind, midrun(kind, 1, 'pure', 0, via='Step')))
    # tight / clip range modes with extra constraints (concrete 1-D boxes; 2-D in the thorough tier of C01/C02 only without constraints)
    for kind in ('NM', 'Powell'):
        for mode in ('clip=True', 'tight'):
            for bi in ((0,) if q else (0, 2, 6)):
                lo, hi = S.BOX_POOL[bi]
                # (NM needs a third step for its first trial vertex outside the box)
                out.append(Instance('mode-step/%s/%s/box%d/pure' % (kind, mode, bi), S.mode_step(kind, mode, lo, hi, 'pure', oblig, steps=3 if kind == 'NM' else 2)))
    if not q:
        out.append(Instance('midrun-constraints/NM/pure/dim=2/free=0', midrun('NM', 2, 'pure')))
    for kind in ('fmin', 'fmin_powell', 'diffev', 'diffev2'):
        for cfg in ('cons', 'box+cons+pen'):
            for mi in ((1,) if q else (0, 1, 2)):
                out.append(Instance('wrapper/%s/%s/maxiter=%d' % (kind, cfg, mi), S.wrapper(kind, cfg, 1, mi, oblig)))
    for kind in (('NM', 'Powell') if q else ('NM', 'Powell', 'DE', 'DE2')):
        for text, dim in (GENERATED[:2] if q else GENERATED):
            out.append(Instance('generated/%s/%s' % (kind, text.replace('\n', ';').replace(' ', '')), generated(kind, text, dim)))
    return out
