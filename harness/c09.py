"""C09 - ensemble solvers return the best member and account for all work (reduction, counting and starting-point kernels).

Real code executed: AbstractEnsembleSolver.__update_bestSolver/__update_state/_all_evals/_total_evals/_all_bestEnergy/
_all_bestSolution/_total_iters on real Lattice/Buckshot solvers whose members are real solver objects with symbolic
results; LatticeSolver._InitialPoints, BuckshotSolver._InitialPoints, math.grid.gridpts/samplepts/randomly_bin,
math.samples.random_samples/_random_samples.
Whole tiny solves (whole-solve/*): AbstractEnsembleSolver._Solve/__get_solver_instance/__init_allSolvers/__update_allSolvers,
LatticeSolver/BuckshotSolver through SetNestedSolver/SetStrictRanges/SetConstraints/SetPenalty/SetEvaluationLimits/Solve with
real NM / Powell members (deep-copied by mystic) for 1-2 generations.
NOT claimed (see DESIGN.md section 6): larger ensembles and longer member runs (unbounded loops over symbolic state),
fillpts (SparsitySolver), the wrappers' return tuples.
"""
import itertools
from symex.engine import Instance
from symex.values import Ctx
from symex import stubs
from symex.ob import (eq, ne, le, lt, ge, gt, And, Or, Not, Implies, Iff, const, ite, absv, maxv, minv, R,
                      sumv, isinf, veq)
from harness import solverlib as L
from harness import steps as S

PROPERTY = 'C09'
LEVEL = 'model_checking'
ASSUMPTIONS = [
    'members are real NM / DE solver objects whose bestEnergy / bestSolution / counters are set to solver-chosen values (ties allowed); the ensemble reduction code is real',
    'two rounds of reduction (step mode): between them the SAME member objects get new solver-chosen results (DE members update bestSolution in place)',
    'lattice / buckshot starting points: strict box symbolic with lower < upper; bin layouts enumerated; random draws are solver variables',
    'whole solves: 2-3 members, NM / Powell members (Powell: Brent by contract), generation limit 1-2, in-process map; constraints deterministic, idempotent, box-preserving; larger ensembles and the sparsity point generator (fillpts) are outside the claim',
]
BOUNDS = {'quick': dict(members='1..3', bins='<= (3,2) / (2,2,2); N <= 12', gridpts='<= 3x3x2', whole_solves='2 members x 1 generation'),
          'thorough': dict(members='1..4', bins='<= (3,3) / (2,2,2); N <= 30', gridpts='<= 3x3x3', whole_solves='2-3 members x 1-2 generations')}
BUDGET = {'quick': 1800, 'thorough': 3600}


def member(ctx, kind, dim, i, rnd):
    s = S.make_solver(kind, dim)
    E = ctx.real('E%d_%d' % (rnd, i))
    x = ctx.reals('x%d_%d_' % (rnd, i), dim)
    n = ctx.int('evals%d_%d' % (rnd, i), 0, None)
    s.bestEnergy = E
    s.bestSolution = L.arr(x)
    s._fcalls = [n]
    s._stepmon(L.vec(x), E, i)
    return s, E, x, n


def reduction(ens_kind, member_kind, nmem, dim):
    def h(ctx):
        import mystic.ensemble as me
        ens = me.LatticeSolver(dim, nbins=nmem) if ens_kind == 'lattice' else me.BuckshotSolver(dim, npts=nmem)
        mem = [member(ctx, member_kind, dim, i, 0) for i in range(nmem)]
        ens._allSolvers = [m[0] for m in mem]
        obs = []

        def check(tag, mem):
            ens._AbstractEnsembleSolver__update_state()
            Es = [m[1] for m in mem]
            mn = minv(*Es)
            be = L.scalar(ens.bestEnergy)
            obs.append(('best-energy-is-minimum-over-members@%s' % tag, eq(be, mn)))
            bs = L.vec(ens.bestSolution)
            obs.append(('solution-is-a-best-members-solution@%s' % tag, Or(*[And(eq(m[1], mn), veq(bs, m[2])) for m in mem])))
            obs.append(('total-evaluations-is-sum-over-members@%s' % tag, eq(ens._total_evals, sumv([m[3] for m in mem]))))
            obs.append(('all-bestEnergy@%s' % tag, veq(ens._all_bestEnergy, Es)))
            obs.append(('all-evals@%s' % tag, veq(ens._all_evals, [m[3] for m in mem])))
            obs.append(('best-solver-is-a-member-with-minimal-energy@%s' % tag, Or(*[And(const(ens._bestSolver is m[0]), eq(m[1], mn)) for m in mem])))
            obs.append(('step-monitor-is-the-best-members@%s' % tag, const(ens._stepmon is ens._bestSolver._stepmon)))
            obs.append(('ensemble-evaluations-is-best-members@%s' % tag, eq(ens.evaluations, ens._bestSolver.evaluations)))
        check('round1', mem)
        # second round: the same member objects progressed (step mode)
        mem2 = []
        for i, (s, E, x, n) in enumerate(mem):
            E2 = ctx.real('E1_%d' % i)
            ctx.assume(le(E2, E))                      # a member's best never worsens (C04)
            x2 = ctx.reals('x1_%d_' % i, dim)
            dn = ctx.int('more%d' % i, 0, None)
            s.bestEnergy = E2
            if member_kind in ('DE', 'DE2'):
                s.bestSolution[:] = x2                 # DE updates its best vector in place
            else:
                s.bestSolution = L.arr(x2)
            s._fcalls[0] = s._fcalls[0] + dn
            s._stepmon(L.vec(x2), E2, i)
            mem2.append((s, E2, x2, n + dn))
        check('round2', mem2)
        return obs
    return h


def lattice_points(dim, nbins):
    def h(ctx):
        import mystic.ensemble as me
        lo, hi = ctx.reals('lo', dim), ctx.reals('hi', dim)
        for a, b in zip(lo, hi):
            ctx.assume(lt(a, b))
        ens = me.LatticeSolver(dim, nbins=nbins)
        ens._strictMin, ens._strictMax = list(lo), list(hi)
        pts = [L.vec(p) for p in ens._InitialPoints()]
        n = 1
        if isinstance(nbins, int):
            n = nbins
        else:
            for b in nbins:
                n *= b
        obs = [('as-many-points-as-requested', const(len(pts) == n and ens._npts == n))]
        if len(pts) != n:
            return obs
        if isinstance(nbins, int):
            # the layout is drawn at random: recover it from the points (count of distinct coordinates per axis is forked by the engine)
            return obs + inside_obs(pts, lo, hi, dim) + [('points-pairwise-distinct', And(*[Not(veq(p, q)) for p, q in itertools.combinations(pts, 2)]) if n > 1 else const(True))]
        cells = set()
        for k, p in enumerate(pts):
            # each point is the centre of one grid cell
            options = []
            for idx in itertools.product(*[range(b) for b in nbins]):
                centre = [lo[i] + R(idx[i] + 0.5) * (hi[i] - lo[i]) / R(nbins[i]) for i in range(dim)]
                options.append((idx, veq(p, centre)))
            obs.append(('point-is-a-cell-centre[%d]' % k, Or(*[o for _, o in options])))
        # distinct cells: pairwise different points (cells are disjoint since lower < upper)
        obs.append(('one-point-per-cell', And(*[Not(veq(p, q)) for p, q in itertools.combinations(pts, 2)]) if n > 1 else const(True)))
        obs += inside_obs(pts, lo, hi, dim)
        return obs
    return h


def inside_obs(pts, lo, hi, dim):
    return [('point-inside-strict-ranges[%d]' % k, And(*[And(le(lo[i], p[i]), le(p[i], hi[i])) for i in range(dim)])) for k, p in enumerate(pts)]


def buckshot_points(dim, npts):
    def h(ctx):
        import mystic.ensemble as me
        lo, hi = ctx.reals('lo', dim), ctx.reals('hi', dim)
        for a, b in zip(lo, hi):
            ctx.assume(le(a, b))
        ens = me.BuckshotSolver(dim, npts=npts)
        ens._strictMin, ens._strictMax = list(lo), list(hi)
        pts = [L.vec(p) for p in ens._InitialPoints()]
        obs = [('as-many-points-as-requested', const(len(pts) == npts and all(len(p) == dim for p in pts)))]
        obs += inside_obs(pts, lo, hi, dim)
        from mystic.math.grid import samplepts
        q = [L.vec(p) for p in samplepts(list(lo), list(hi), npts)]
        obs += [(n.replace('point-', 'samplepts-point-'), o) for n, o in inside_obs(q, lo, hi, dim)]
        return obs
    return h


def grid(shape):
    def h(ctx):
        from mystic.math.grid import gridpts
        q = [ctx.reals('q%d_' % i, n) for i, n in enumerate(shape)]
        pts = [L.vec(p) for p in gridpts([list(v) for v in q])]
        want = [list(c) for c in itertools.product(*q)]
        obs = [('full-cartesian-product-size', const(len(pts) == len(want)))]
        if len(pts) == len(want):
            obs.append(('documented-order', And(*[veq(a, b) for a, b in zip(pts, want)])))
        return obs
    return h


def bins(N, ndim, ones):
    def h(ctx):
        from mystic.math.grid import randomly_bin
        r = randomly_bin(N, ndim, ones=ones, exact=True)
        p = 1
        for v in r:
            p *= int(v)
        obs = [('product-of-bins-is-N', const(p == N)), ('one-bin-count-per-dimension', const(len(r) == ndim)),
               ('positive-integers', const(all(int(v) == v and v >= 1 for v in r)))]
        return obs
    return h


# ----------------------------------------------------------------------------- whole (tiny) ensemble solves
# module-level callables: the ensemble deep-copies its nested solver (dill pickles these by reference)
CURRENT = {}


def COST(x):
    return CURRENT['w'].cost(x)


def PENALTY(x):
    return CURRENT['w'].penalty(x)


def CONSTRAINT(x):
    return CURRENT['w'].constraint(x)


def whole(ens_kind, member_kind, nbins, cfg, gens, step=False, legacy=0):
    """a real LatticeSolver / BuckshotSolver solve through the public API: members are configured, deep-copied, started, run
    (generation limit `gens`) and reduced by mystic; cost / penalty / constraints are uninterpreted, the strict box symbolic"""
    dim = len(nbins)
    n = 1
    for b in nbins:
        n *= b

    def h(ctx):
        import mystic.ensemble as me
        import mystic.solvers as ms
        w = L.World(ctx, dim, **S.CONFIGS[cfg])
        for a, b in zip(w.lo, w.hi):
            ctx.assume(lt(a, b))
        CURRENT['w'] = w
        ens = me.LatticeSolver(dim, nbins=list(nbins)) if ens_kind == 'lattice' else me.BuckshotSolver(dim, npts=n)
        ens.SetNestedSolver(ms.NelderMeadSimplexSolver if member_kind == 'NM' else ms.PowellDirectionalSolver)
        if member_kind == 'Powell':
            S.install_brent_contract(ctx)
        ens.SetStrictRanges(L.arr(w.lo), L.arr(w.hi))
        ens.SetEvaluationLimits(generations=gens)
        ens.SetTermination(L.never())
        if w.c is not None:
            ens.SetConstraints(CONSTRAINT)
        if w.p is not None:
            ens.SetPenalty(PENALTY)
        if legacy:
            # an evaluation monitor that already holds data (legacy points, a monitor kept from an earlier run)
            from mystic.monitors import Monitor
            em = Monitor()
            for k in range(legacy):
                em(list(ctx.reals('legacy%d_' % k, dim)), ctx.real('legacyy%d' % k))
            ens.SetEvaluationMonitor(em)
        if step:
            ens.SetObjective(COST)
            for k in range(gens + 1):
                ens.Step()
        else:
            ens.Solve(COST)
        mem = list(ens._allSolvers)
        obs = [('as-many-members-as-requested', const(len(mem) == n and all(m is not None for m in mem)))]
        if len(mem) != n or any(m is None for m in mem):
            return obs
        # every real cost call lies inside the strict box and at a constrained point
        for k, c in enumerate(w.calls):
            obs.append(('call-inside-strict-ranges[%d]' % k, w.inside(c)))
            if w.c is not None:
                obs.append(('call-at-a-constrained-point[%d]' % k, veq(c, w.C(c))))
        Es, xs = [], []
        centres = []
        if ens_kind == 'lattice':
            for idx in itertools.product(*[range(b) for b in nbins]):
                centres.append([w.lo[i] + R(idx[i] + 0.5) * (w.hi[i] - w.lo[i]) / R(nbins[i]) for i in range(dim)])
        for i, m in enumerate(mem):
            E, x = L.scalar(m.bestEnergy), L.vec(m.bestSolution)
            Es.append(E)
            xs.append(x)
            first = L.vec(m._stepmon._x[0]) if len(m._stepmon) else None
            obs.append(('member-logged-its-start[%d]' % i, const(first is not None)))
            if first is not None:
                obs.append(('member-started-inside-strict-ranges[%d]' % i, w.inside(first)))
                if ens_kind == 'lattice':
                    obs.append(('member-started-at-the-centre-of-a-cell[%d]' % i, Or(*[veq(first, w.C(c)) for c in centres])))
            if not isinf(E):
                obs.append(('member-energy-is-cost+penalty-at-its-solution[%d]' % i, w.energy_is(E, x)))
                obs.append(('member-solution-was-evaluated[%d]' % i, w.was_called_at(x)))
            obs.append(('member-obeyed-the-generation-limit[%d]' % i, const(m.generations <= gens)))
        if ens_kind == 'lattice' and n > 1:
            firsts = [L.vec(m._stepmon._x[0]) for m in mem if len(m._stepmon)]
            if w.c is None and len(firsts) == n:
                obs.append(('one-member-per-cell', And(*[Not(veq(p, q)) for p, q in itertools.combinations(firsts, 2)])))
        if all(not isinf(e) for e in Es):
            mn = minv(*Es)
            be = L.scalar(ens.bestEnergy)
            obs.append(('best-energy-is-minimum-over-members', eq(be, mn)))
            obs.append(('solution-is-a-best-members-solution', Or(*[And(eq(e, mn), veq(L.vec(ens.bestSolution), x)) for e, x in zip(Es, xs)])))
        obs.append(('total-evaluations==real-cost-calls', eq(ens._total_evals, len(w.calls))))
        obs.append(('sum-of-member-evaluations==real-cost-calls', eq(sumv([m.evaluations for m in mem]), len(w.calls))))
        return obs
    return h


def instances(tier, seed):
    q = tier == 'quick'
    out = []
    for ek, mk, nb, cfg, g in ([('lattice', 'NM', (2,), 'box', 1), ('lattice', 'NM', (2,), 'box+cons+pen', 1), ('buckshot', 'NM', (2,), 'box', 1)] if q else
                               [('lattice', 'NM', (2,), 'box', 1), ('lattice', 'NM', (2,), 'box+cons+pen', 1), ('lattice', 'NM', (3,), 'box', 1),
                                ('lattice', 'NM', (2, 1), 'box', 1), ('buckshot', 'NM', (2,), 'box', 1), ('buckshot', 'NM', (2,), 'box+cons+pen', 1),
                                ('lattice', 'Powell', (2,), 'box', 1), ('lattice', 'NM', (2,), 'box', 2)]):
        out.append(Instance('whole-solve/%s/%s/nbins=%s/%s/generations=%d' % (ek, mk, 'x'.join(map(str, nb)), cfg, g), whole(ek, mk, nb, cfg, g), qtimeout=6000))
    for k in ((2,) if q else (1, 2, 3)):
        out.append(Instance('whole-solve/lattice/NM/nbins=2/box/generations=1/evaluation-monitor-with-%d-earlier-records' % k, whole('lattice', 'NM', (2,), 'box', 1, legacy=k), qtimeout=6000))
    for ek in ('lattice', 'buckshot'):
        for mk in ('NM', 'DE'):
            for n in ((1, 2, 3) if q else (1, 2, 3, 4)):
                out.append(Instance('reduction/%s/%s-members/n=%d' % (ek, mk, n), reduction(ek, mk, n, 2)))
    layouts = [(1, (2,)), (1, (3,)), (2, (2, 2)), (2, (3, 2)), (3, (2, 2, 2))] if q else [(1, (2,)), (1, (3,)), (1, (5,)), (2, (2, 2)), (2, (3, 2)), (2, (3, 3)), (2, (1, 4)), (3, (2, 2, 2)), (3, (1, 2, 3))]
    for dim, nb in layouts:
        out.append(Instance('lattice-points/dim=%d/nbins=%s' % (dim, 'x'.join(map(str, nb))), lattice_points(dim, nb)))
    for dim, N in ([(1, 3), (2, 4), (2, 5), (2, 7), (2, 6), (3, 8)] if q else [(1, 3), (1, 7), (2, 4), (2, 5), (2, 6), (2, 7), (2, 9), (2, 11), (3, 8), (3, 5), (3, 12)]):
        out.append(Instance('lattice-points/dim=%d/nbins=%d(int)' % (dim, N), lattice_points(dim, N)))
    for dim, n in ((1, 1), (1, 3), (2, 2), (2, 4), (3, 2)):
        out.append(Instance('buckshot-points/dim=%d/npts=%d' % (dim, n), buckshot_points(dim, n)))
    shapes = []
    for k in (1, 2, 3):
        for sh in itertools.product((1, 2, 3), repeat=k):
            if q and (k == 3 and max(sh) == 3 and sh != (3, 3, 2)):
                continue
            shapes.append(sh)
    for sh in shapes:
        out.append(Instance('gridpts/%s' % 'x'.join(map(str, sh)), grid(sh)))
    for N in (range(1, 13) if q else list(range(1, 31)) + [32, 36, 48, 64]):
        for nd in (1, 2, 3):
            if q and len([1 for _ in range(1)]) and N > 8 and nd == 3:
                continue
            for ones in (True, False):
                out.append(Instance('randomly_bin/N=%d/ndim=%d/ones=%s' % (N, nd, ones), bins(N, nd, ones), max_paths=50000))
    return out
