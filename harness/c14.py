"""C14 - compiled condition and penalty functions measure exactly the stated violation.

Real code executed: symbolic.penalty_parser/generate_conditions (eval-based condition functions)/
generate_penalty (stacked mystic.penalty decorators)/generate_solvers/generate_constraint, penalty.quadratic_*/
linear_*/uniform_*.
The generated functions are CALLED on a solver-quantified vector; lhs/rhs are an independent reading of the
text written by the harness.
"""
from symex.engine import Instance
from symex.values import Ctx
from symex import stubs
from symex.ob import (eq, ne, le, lt, ge, gt, And, Or, Not, Implies, Iff, const, ite, absv, maxv, minv, R,
                      sumv, isinf, veq, CBool)
from harness import solverlib as L
from symex import ob as _ob

PROPERTY = 'C14'
LEVEL = 'model_checking'
ASSUMPTIONS = [
    'floats modelled as exact reals; NaN outside the claim',
    'strict comparators: the condition is lhs-rhs shifted by tolerance(rhs)=tol+|rhs|*rel (documented locals tol, rel); obligation: value <= 0 implies the strict relation, '
    'and the relation with margin tolerance(rhs) implies value <= 0',
    'penalty types exercised: the default (quadratic) pair and linear/uniform overrides; k > 0, h = default; iteration 0',
]
BOUNDS = {'quick': dict(nvars='<=4 (and one 12-variable text)', texts=30), 'thorough': dict(nvars='<=4 (and 12-variable texts)', texts=80)}
BUDGET = {'quick': 1800, 'thorough': 1800}
TOL, REL = 1e-15, 1e-15


def tolerance(v, tol=TOL, rel=REL):
    if isinstance(v, float):
        return tol + abs(v) * rel
    return R(tol) + absv(v) * R(rel)


def rel(cmp, a, b):
    return {'<': lt, '<=': le, '>': gt, '>=': ge, '=': eq, '==': eq, '!=': ne}[cmp](a, b)


# (text line, lhs fn, cmp, rhs fn)
LINES = [
    ('x0 <= 2*x1 + 3', lambda x: x[0], '<=', lambda x: R(2) * x[1] + R(3)),
    ('x0 >= x1*x2', lambda x: x[0], '>=', lambda x: x[1] * x[2]),
    ('x0 + x1 < 4.5', lambda x: x[0] + x[1], '<', lambda x: 4.5),
    ('x2 > abs(x0)', lambda x: x[2], '>', lambda x: absv(x[0])),
    ('x1 = x0 - 1.5*x2', lambda x: x[1], '=', lambda x: x[0] - R(1.5) * x[2]),
    ('x0*x0 + x1 == 2', lambda x: x[0] * x[0] + x[1], '==', lambda x: 2.0),
    ('x1 != 3', lambda x: x[1], '!=', lambda x: 3.0),
    ('-x0 >= -1e6*x2', lambda x: R(0) - x[0], '>=', lambda x: R(-1e6) * x[2]),
    ('3 <= x1', lambda x: 3.0, '<=', lambda x: x[1]),
    ('x0 - x2 > x1 - 7', lambda x: x[0] - x[2], '>', lambda x: x[1] - R(7)),
]
# twelve variables: x1 must not be mistaken for a prefix of x10/x11
LINES12 = [
    ('x10 <= x1 + 1', lambda x: x[10], '<=', lambda x: x[1] + R(1)),
    ('x11 - x1 = x10', lambda x: x[11] - x[1], '=', lambda x: x[10]),
    ('x1 > x11', lambda x: x[1], '>', lambda x: x[11]),
]


def condition(line, n, locals_=None):
    text, lf, cmp, rf = line

    def h(ctx):
        import mystic.symbolic as ms
        _ob.RTOL = 0.0      # tolerance bands are 1e-15 wide: a replayed counterexample is compared exactly
        loc = dict(locals_) if locals_ else None
        conds = ms.generate_conditions(text, nvars=n, locals=loc)
        conds = [c for c in L_flat(conds)]
        x = ctx.reals('x', n)
        obs = [('one-condition-per-line', const(len(conds) == 1))]
        if len(conds) != 1:
            return obs
        c = conds[0]
        v = c(list(x))
        lhs, rhs = lf(x), rf(x)
        kind = c.__name__
        tol = (locals_ or {}).get('tol', TOL)
        rl = (locals_ or {}).get('rel', REL)
        if cmp in ('=', '=='):
            obs.append(('equality-kind', const(kind == 'equality')))
            obs.append(('value-is-lhs-minus-rhs', eq(v, lhs - rhs)))
            obs.append(('zero-iff-relation', Iff(eq(v, 0), rel(cmp, lhs, rhs))))
        elif cmp == '!=':
            obs.append(('equality-kind', const(kind == 'equality')))
            obs.append(('zero-iff-relation', Iff(eq(L.R_(v), 0), rel(cmp, lhs, rhs))))
        elif cmp in ('<=', '>='):
            obs.append(('inequality-kind', const(kind == 'inequality')))
            obs.append(('value-is-oriented-lhs-minus-rhs', eq(v, (lhs - rhs) if cmp == '<=' else (rhs - lhs))))
            obs.append(('nonpositive-iff-relation', Iff(le(v, 0), rel(cmp, lhs, rhs))))
        else:
            obs.append(('inequality-kind', const(kind == 'inequality')))
            t = tolerance(rhs, tol, rl)
            obs.append(('nonpositive-implies-strict-relation', Implies(le(v, 0), rel(cmp, lhs, rhs))))
            obs.append(('relation-with-margin-implies-nonpositive', Implies(le(lhs, rhs - t) if cmp == '<' else ge(lhs, rhs + t), le(v, 0))))
            obs.append(('gap-is-the-tolerance', eq(v, (lhs - (rhs - t)) if cmp == '<' else ((rhs + t) - lhs))))
        ctx.observe('value', L.R_(v))
        return obs
    return h


def two_models(name, cmp):
    """functions generated from one text + locals keep meaning what they meant when a SECOND, unrelated model is generated afterwards
    with the same local names bound to other values (condition, penalty and constraint of model 1 are used after model 2 exists)"""
    text = 'x0 %s %s + x1' % (cmp, name)
    val, other = 0.5, -8.0

    def h(ctx):
        import mystic.symbolic as ms
        _ob.RTOL = 0.0
        x = ctx.reals('x', 2)
        conds = L_flat(ms.generate_conditions(text, nvars=2, locals={name: val}))
        pf = ms.generate_penalty(ms.generate_conditions(text, nvars=2, locals={name: val}))
        cf = ms.generate_constraint(ms.generate_solvers(text, nvars=2, locals={name: val}))
        # the second model: same names, other values, other tolerances
        text2 = 'x1 %s %s - x0' % (cmp, name)
        conds2 = L_flat(ms.generate_conditions(text2, nvars=2, locals={name: other, 'tol': 0.25, 'rel': 0.5}))
        pf2 = ms.generate_penalty(ms.generate_conditions(text2, nvars=2, locals={name: other}))
        cf2 = ms.generate_constraint(ms.generate_solvers(text2, nvars=2, locals={name: other, 'tol': 0.25, 'rel': 0.5}))
        lhs, rhs = x[0], R(val) + x[1]
        v = conds[0](list(x))
        obs = [('condition-still-uses-its-own-local', eq(v, rhs - lhs) if cmp == '>=' else eq(v, lhs - rhs))]
        obs.append(('penalty-still-zero-iff-its-own-relation', Iff(eq(pf(list(x)), 0), rel(cmp, lhs, rhs))))
        y = L.vec(cf(list(x)))
        obs.append(('constraint-still-solves-its-own-relation', rel(cmp, y[0], R(val) + y[1])))
        obs.append(('penalty-of-constrained-point-is-zero', eq(pf(list(y)), 0)))
        return obs
    return h


def named_locals(name, cmp):
    """an extra local used in the text ('x0 >= tau'): the condition, the penalty and the constraint built from the same text and
    locals all use the user's value, also when the name coincides with a math/numpy export (e, pi, tau, inf)"""
    text = 'x0 %s %s + x1' % (cmp, name)
    val = 0.5

    def h(ctx):
        import mystic.symbolic as ms
        _ob.RTOL = 0.0
        x = ctx.reals('x', 2)
        conds = L_flat(ms.generate_conditions(text, nvars=2, locals={name: val}))
        obs = [('one-condition', const(len(conds) == 1))]
        v = conds[0](list(x))
        lhs, rhs = x[0], R(val) + x[1]
        if cmp == '>=':
            obs.append(('condition-uses-the-given-local', eq(v, rhs - lhs)))
        elif cmp == '<=':
            obs.append(('condition-uses-the-given-local', eq(v, lhs - rhs)))
        else:
            obs.append(('condition-uses-the-given-local', eq(v, lhs - rhs)))
        pf = ms.generate_penalty(ms.generate_conditions(text, nvars=2, locals={name: val}))
        out = pf(list(x))
        obs.append(('penalty-zero-iff-relation', Iff(eq(out, 0), rel(cmp, lhs, rhs))))
        cf = ms.generate_constraint(ms.generate_solvers(text, nvars=2, locals={name: val}))
        y = L.vec(cf(list(x)))
        obs.append(('penalty-of-constrained-point-is-zero', eq(pf(list(y)), 0)))
        return obs
    return h


def L_flat(c):
    if isinstance(c, (list, tuple)):
        out = []
        for i in c:
            out += L_flat(i)
        return out
    return [c]


def violation(line, x, tol=TOL, rl=REL):
    """(satisfied?, magnitude) of one line per the documented condition"""
    text, lf, cmp, rf = line
    lhs, rhs = lf(x), rf(x)
    if cmp in ('=', '=='):
        return eq(lhs, rhs), lhs - rhs, 'eq'
    if cmp == '!=':
        return ne(lhs, rhs), ite(eq(lhs, rhs), R(1), R(0)), 'eq'
    if cmp == '<=':
        return le(lhs, rhs), lhs - rhs, 'ineq'
    if cmp == '>=':
        return ge(lhs, rhs), rhs - lhs, 'ineq'
    t = tolerance(rhs, tol, rl)
    if cmp == '<':
        return le(lhs, rhs - t), lhs - (rhs - t), 'ineq'
    return ge(lhs, rhs + t), (rhs + t) - lhs, 'ineq'


def penalty(lines, n, ptype, sym_k):
    text = '\n'.join(l[0] for l in lines)

    def h(ctx):
        import mystic.symbolic as ms
        import mystic.penalty as mp
        _ob.RTOL = 1e-9
        conds = ms.generate_conditions(text, nvars=n)
        kw = {}
        if sym_k:
            k = ctx.real('k')
            ctx.assume(gt(k, 0))
            kw['k'] = k
        else:
            k = R(100.0)          # documented default multiplier
        if ptype == 'default':
            pf = ms.generate_penalty(conds, **kw)
        else:
            pf = ms.generate_penalty(conds, getattr(mp, ptype), **kw)
        x = ctx.reals('x', n)
        out = pf(list(x))
        _ob.RTOL = 0.0          # feasibility verdicts are compared exactly in replay (tolerance bands are 1e-15 wide) ...
        sats = [violation(l, x)[0] for l in lines]
        obs = [('zero-iff-every-line-satisfied', Iff(eq(out, 0), And(*sats))), ('positive-otherwise', Implies(Not(And(*sats)), gt(out, 0))),
               ('non-negative', ge(out, 0))]
        _ob.RTOL = 1e-9         # ... the value of the sum up to rounding
        terms = []
        for l in lines:
            sat, mag, kind = violation(l, x)
            if ptype == 'default':
                terms.append(k * mag * mag if kind == 'eq' else R(2) * k * maxv(R(0), mag) * maxv(R(0), mag))
            elif ptype == 'linear_equality':
                terms.append(k * absv(mag))
            elif ptype == 'linear_inequality':
                terms.append(R(2) * k * maxv(R(0), mag))
        if ptype == 'default' or all(violation(l, x)[2] == ('eq' if ptype.endswith('_equality') else 'ineq') for l in lines):
            obs.append(('is-documented-sum-of-per-line-terms', eq(out, sumv(terms))))
        ctx.observe('penalty', out)
        return obs
    return h


def constraint_zeroes_penalty(lines, n):
    text = '\n'.join(l[0] for l in lines)

    def h(ctx):
        import mystic.symbolic as ms
        _ob.RTOL = 0.0
        pf = ms.generate_penalty(ms.generate_conditions(text, nvars=n))
        cf = ms.generate_constraint(ms.generate_solvers(text, nvars=n))
        x = ctx.reals('x', n)
        y = cf(list(x))
        out = pf(L.vec(y))
        return [('penalty-of-constrained-point-is-zero', eq(out, 0))]
    return h


ISOLATED = [
    [('x0 <= 2*x1 + 3', lambda x: x[0], '<=', lambda x: R(2) * x[1] + R(3))],
    [('x0 > x1*x2', lambda x: x[0], '>', lambda x: x[1] * x[2])],
    [('x1 = x0 - 1.5*x2', lambda x: x[1], '=', lambda x: x[0] - R(1.5) * x[2])],
    [('x1 != 3', lambda x: x[1], '!=', lambda x: 3.0)],
    [('x0 < 4.5', lambda x: x[0], '<', lambda x: 4.5), ('x1 >= x2 - 1', lambda x: x[1], '>=', lambda x: x[2] - R(1))],
    [('x0 = x2 + 1', lambda x: x[0], '=', lambda x: x[2] + R(1)), ('x1 <= -2', lambda x: x[1], '<=', lambda x: -2.0)],
]


def instances(tier, seed):
    q = tier == 'quick'
    out = []
    for l in LINES:
        out.append(Instance('condition/%s' % l[0].replace(' ', ''), condition(l, 3)))
    for l in LINES12:
        out.append(Instance('condition12/%s' % l[0].replace(' ', ''), condition(l, 12)))
    for l in (LINES[2], LINES[3], LINES[9]):
        out.append(Instance('condition-locals/%s/tol=1e-3,rel=0.5' % l[0].replace(' ', ''), condition(l, 3, dict(tol=1e-3, rel=0.5))))
    for name in ('a', 'tau', 'e', 'pi', 'inf', 'b_1'):
        for cmp in (('>=', '=') if name in ('a', 'tau') else ('>=',)):
            out.append(Instance('named-local/%s/%s' % (name, cmp), named_locals(name, cmp)))
    for name, cmp in (('lo', '>='), ('hi', '<=')):
        out.append(Instance('two-models/%s/%s' % (name, cmp), two_models(name, cmp)))
    groups = [LINES[0:2], LINES[2:5], [LINES[4], LINES[6]], [LINES[0], LINES[3], LINES[5]], LINES[7:10]]
    if not q:
        groups += [LINES[0:4], [LINES[1], LINES[4], LINES[8]], [LINES[5]], [LINES[6]], [LINES[2]]]
    for gi, g in enumerate(groups):
        out.append(Instance('penalty/default/group%d/k=100' % gi, penalty(g, 3, 'default', False)))
        out.append(Instance('penalty/default/group%d/k=sym' % gi, penalty(g, 3, 'default', True)))
    out.append(Instance('penalty/linear_inequality/ineq-lines', penalty([LINES[0], LINES[1], LINES[7]], 3, 'linear_inequality', True)))
    out.append(Instance('penalty/linear_equality/eq-lines', penalty([LINES[4], LINES[5]], 3, 'linear_equality', True)))
    out.append(Instance('penalty/default/12vars', penalty(LINES12, 12, 'default', True)))
    for gi, g in enumerate(ISOLATED):
        out.append(Instance('constraint-zeroes-penalty/%d' % gi, constraint_zeroes_penalty(g, 3)))
    return out
